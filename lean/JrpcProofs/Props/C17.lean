import Jrpc.Keepalive
/-
  C17 — Keepalive keeps healthy links up and detects silent peers in bounded time.
  Property theorems only.  Model: `Jrpc.Keepalive`, for every configuration (T, G, E) and every event
  list — call durations, idle periods and traffic patterns are all just interleavings of `activity`,
  `renew`, `rearm`, `localIter` and `tick`.

  PARTIAL by nature: G and E are assumptions about the peer, the network and the scheduler, made
  explicit as guards of `tick`.  With a peer that answers pings, G ≤ P + ρ; "ping interval below half the
  timeout" (P < T/2) together with ρ + E ≤ T/2 gives the hypothesis G + E < T of `C17_up`.  That the peer
  does answer pings is a fact about the code (the ping handler), tied by the scenarios, not by a theorem.
-/
namespace Jrpc.C17
open Jrpc.Keepalive

/-- The invariant behind C17_up: both detectors (the read deadline and the main loop's idle timer) are
    at least a full timeout ahead of the latest peer activity, or about to be renewed in time. -/
def Up (c : Cfg) (s : St) : Prop :=
  s.failed = none ∧ s.silent = none ∧ (s.now ≤ s.lastAct + c.G ∧ s.lastAct ≤ s.now) ∧
  (s.pending = none → s.lastAct + c.T ≤ s.deadline) ∧
  (∀ t, s.pending = some t → t ≤ s.lastAct ∧ s.now ≤ t + c.E ∧ t + c.E < s.deadline) ∧
  (s.pendingI = none → s.lastAct + c.T ≤ s.idleDl) ∧
  (∀ t, s.pendingI = some t → t ≤ s.lastAct ∧ s.now ≤ t + c.E ∧ t + c.E < s.idleDl)

theorem up_init (c : Cfg) (hc : c.G + c.E < c.T) : Up c (init c) := by
  simp [Up, init]

theorem up_ahead (c : Cfg) (hc : c.G + c.E < c.T) (s : St) (h : Up c s) : s.now < s.deadline ∧ s.now < s.idleDl := by
  obtain ⟨_, _, h3, h4, h5, h6, h7⟩ := h
  constructor
  · cases hp : s.pending with
    | none => have := h4 hp; omega
    | some t => have := h5 t hp; omega
  · cases hp : s.pendingI with
    | none => have := h6 hp; omega
    | some t => have := h7 t hp; omega

/-- Without silence, every step keeps both detectors ahead of the clock. -/
theorem up_step (c : Cfg) (hc : c.G + c.E < c.T) (s s' : St) (e : Ev) (he : e ≠ .silence)
    (h : Up c s) (hs : step? c s e = some s') : Up c s' := by
  have hahead := up_ahead c hc s h
  obtain ⟨h1, h2, h3, h4, h5, h6, h7⟩ := h
  have hf : s.failed.isSome = false := by simp [h1]
  have hsl : s.silent.isSome = false := by simp [h2]
  cases e with
  | silence => exact absurd rfl he
  | tick =>
    simp only [step?, hf, hsl] at hs
    simp at hs
    obtain ⟨hg, hs⟩ := hs
    subst hs
    refine ⟨h1, h2, ⟨by simp only; omega, by simp only; omega⟩, h4, ?_, h6, ?_⟩
    · intro t ht
      have := h5 t ht
      have ht' : s.pending = some t := ht
      simp only [ht'] at hg
      simp at hg
      simp only; omega
    · intro t ht
      have := h7 t ht
      have ht' : s.pendingI = some t := ht
      simp only [ht'] at hg
      simp at hg
      simp only; omega
  | activity =>
    simp only [step?, hf, hsl] at hs
    simp at hs
    subst hs
    refine ⟨h1, h2, ⟨by simp only; omega, by simp only; omega⟩, ?_, ?_, ?_, ?_⟩
    · intro hn; simp only at hn; split at hn <;> simp at hn
    · intro t ht
      simp only at ht
      cases hp0 : s.pending with
      | some t0 =>
        rw [hp0] at ht; cases ht
        have := h5 t hp0
        simp only; omega
      | none =>
        rw [hp0] at ht; cases ht
        have := h4 hp0
        simp only; omega
    · intro hn; simp only at hn; split at hn <;> simp at hn
    · intro t ht
      simp only at ht
      cases hp0 : s.pendingI with
      | some t0 =>
        rw [hp0] at ht; cases ht
        have := h7 t hp0
        simp only; omega
      | none =>
        rw [hp0] at ht; cases ht
        have := h6 hp0
        simp only; omega
  | renew =>
    simp only [step?] at hs
    split at hs
    · next t hp =>
      simp only [hf] at hs
      simp at hs
      subst hs
      have := h5 t hp
      refine ⟨h1, h2, h3, by intro _; simp only; omega, by intro t' ht'; simp at ht', h6, h7⟩
    · cases hs
  | rearm =>
    simp only [step?] at hs
    split at hs
    · next t hp =>
      simp only [hf] at hs
      simp at hs
      subst hs
      have := h7 t hp
      refine ⟨h1, h2, h3, h4, h5, by intro _; simp only; omega, by intro t' ht'; simp at ht'⟩
    · cases hs
  | localIter =>
    simp only [step?, hf] at hs
    simp at hs
    subst hs
    refine ⟨h1, h2, h3, h4, h5, ?_, ?_⟩
    · intro hn; have := h6 hn; simp only; omega
    · intro t ht; have := h7 t ht; simp only; omega
  | readFail =>
    simp [step?, h1] at hs
    omega
  | idleFire =>
    simp [step?, h1] at hs
    omega

/-- C17_up: if peer activity recurs with gaps of at most G and G + E < T, then in every reachable
    state of a run without silence the read deadline and the idle timer both lie ahead of the clock
    and the connection has not been given up — for calls and subscriptions of any duration and idle
    periods of any length. -/
theorem C17_up (c : Cfg) (hc : c.G + c.E < c.T) (es : List Ev) (hns : Ev.silence ∉ es) :
    ∀ (s s' : St), Up c s → run? c s es = some s' → (Up c s' ∧ s'.now < s'.deadline ∧ s'.now < s'.idleDl) := by
  induction es with
  | nil =>
    intro s s' h hr
    simp [run?] at hr; subst hr
    exact ⟨h, up_ahead c hc s h⟩
  | cons e es ih =>
    intro s s' h hr
    simp only [run?] at hr
    cases hs : step? c s e with
    | none => simp [hs] at hr
    | some s1 =>
      simp only [hs, Option.bind_some] at hr
      have he : e ≠ .silence := by intro e0; subst e0; exact hns List.mem_cons_self
      exact ih (fun hm => hns (List.mem_cons_of_mem _ hm)) s1 s' (up_step c hc s s1 e he h hs) hr

/-- … in particular the library never gives the connection up on such a run: neither `readFail` nor
    `idleFire` is ever enabled. -/
theorem C17_never_fails (c : Cfg) (hc : c.G + c.E < c.T) (es : List Ev) (hns : Ev.silence ∉ es) (s' : St)
    (hr : run? c (init c) es = some s') :
    s'.failed = none ∧ step? c s' .readFail = none ∧ step? c s' .idleFire = none := by
  have h := C17_up c hc es hns (init c) s' (up_init c hc) hr
  have hf := h.1.1
  refine ⟨hf, ?_, ?_⟩
  · simp only [step?, hf]; simp; omega
  · simp only [step?, hf]; simp; omega

/-- The invariant behind the detection bound; no assumption on G (it holds on every run). -/
def Det (c : Cfg) (s : St) : Prop :=
  s.lastAct ≤ s.now ∧
  (∀ t, s.pending = some t → t ≤ s.lastAct ∧ (s.failed = none → s.now ≤ t + c.E)) ∧
  s.deadline ≤ s.lastAct + c.E + c.T ∧
  (∀ t0, s.silent = some t0 → s.lastAct ≤ t0 ∧ t0 ≤ s.now) ∧
  (s.failed = none → s.now ≤ s.deadline + c.E) ∧
  (∀ tf t0, s.failed = some tf → s.silent = some t0 → tf ≤ t0 + c.T + 2 * c.E)

theorem det_init (c : Cfg) : Det c (init c) := by
  simp [Det, init]

theorem det_step (c : Cfg) (s s' : St) (e : Ev) (h : Det c s) (hs : step? c s e = some s') : Det c s' := by
  obtain ⟨h1, h2, h3, h4, h5, h6⟩ := h
  cases e with
  | tick =>
    simp only [step?] at hs
    split at hs
    · next hf =>
      cases hs
      refine ⟨by simp; omega, ?_, h3, ?_, ?_, h6⟩
      · intro t ht; have := h2 t ht
        refine ⟨this.1, ?_⟩
        intro hn; simp only at hn; simp [hn] at hf
      · intro t0 ht0; have := h4 t0 ht0; simp; omega
      · intro hn; simp only at hn; simp [hn] at hf
    · next hf =>
      simp at hs
      obtain ⟨⟨⟨⟨hg, hp⟩, hpi⟩, hfo⟩, hs⟩ := hs
      subst hs
      refine ⟨by simp; omega, ?_, h3, ?_, ?_, h6⟩
      · intro t ht
        simp only at ht
        have := h2 t ht
        simp only [ht] at hp
        simp at hp
        exact ⟨this.1, fun _ => by simp; omega⟩
      · intro t0 ht0; have := h4 t0 ht0; simp; omega
      · intro _; simp; omega
  | activity =>
    simp only [step?] at hs
    split at hs
    · cases hs
    · next hsf =>
      simp at hsf
      cases hs
      refine ⟨by simp, ?_, by simp; omega, ?_, h5, ?_⟩
      · intro t ht
        simp only at ht
        split at ht
        · next t0 hp0 =>
          cases ht
          have := h2 t hp0
          exact ⟨by simp; omega, this.2⟩
        · cases ht; simp
      · intro t0 ht0; simp only at ht0; simp [hsf.1] at ht0
      · intro tf t0 hf; simp only at hf; simp [hsf.2] at hf
  | renew =>
    simp only [step?] at hs
    split at hs
    · next t hp =>
      split at hs
      · cases hs
      · next hf =>
        simp at hf
        cases hs
        have := h2 t hp
        have h22 := this.2 hf
        refine ⟨h1, by intro t' ht'; simp at ht', by simp; omega, h4, by intro _; simp; omega, h6⟩
    · cases hs
  | rearm =>
    simp only [step?] at hs
    split at hs
    · split at hs
      · cases hs
      · cases hs; exact ⟨h1, h2, h3, h4, h5, h6⟩
    · cases hs
  | localIter =>
    simp only [step?] at hs
    split at hs
    · cases hs
    · cases hs; exact ⟨h1, h2, h3, h4, h5, h6⟩
  | silence =>
    simp only [step?] at hs
    split at hs
    · cases hs
    · next hsf =>
      simp at hsf
      cases hs
      refine ⟨h1, h2, h3, ?_, h5, ?_⟩
      · intro t0 ht0; simp at ht0; subst ht0; exact ⟨h1, Nat.le_refl _⟩
      · intro tf t0 hf; simp only at hf; simp [hsf.2] at hf
  | readFail =>
    simp only [step?] at hs
    split at hs
    · next hg =>
      simp at hg
      cases hs
      refine ⟨h1, ?_, h3, h4, by intro hn; simp at hn, ?_⟩
      · intro t ht; exact ⟨(h2 t ht).1, by intro hn; simp at hn⟩
      · intro tf t0 hf ht0
        simp at hf; subst hf
        have := h4 t0 ht0
        have := h5 hg.1
        omega
    · cases hs
  | idleFire =>
    simp only [step?] at hs
    split at hs
    · next hg =>
      simp at hg
      cases hs
      refine ⟨h1, ?_, h3, h4, by intro hn; simp at hn, ?_⟩
      · intro t ht; exact ⟨(h2 t ht).1, by intro hn; simp at hn⟩
      · intro tf t0 hf ht0
        simp at hf; subst hf
        have := h4 t0 ht0
        have := h5 hg.1
        omega
    · cases hs

theorem det_run (c : Cfg) (es : List Ev) : ∀ (s s' : St), Det c s → run? c s es = some s' → Det c s' := by
  induction es with
  | nil => intro s s' h hr; simp [run?] at hr; subst hr; exact h
  | cons e es ih =>
    intro s s' h hr
    simp only [run?] at hr
    cases hs : step? c s e with
    | none => simp [hs] at hr
    | some s1 =>
      simp only [hs, Option.bind_some] at hr
      exact ih s1 s' (det_step c s s1 e h hs) hr

/-- C17_detect: on EVERY run (no assumption on the peer's behaviour before it fell silent, on the
    traffic, on local callers keeping the main loop busy), if the peer fell silent at t₀ then either
    the connection has been given up, at a time ≤ t₀ + T + 2E, or the clock has not reached
    t₀ + T + 2E yet: time cannot pass that point without the failure. -/
theorem C17_detect (c : Cfg) (es : List Ev) (s : St) (t0 : Nat)
    (hr : run? c (init c) es = some s) (hsil : s.silent = some t0) :
    (s.failed = none → s.now ≤ t0 + c.T + 2 * c.E) ∧ (∀ tf, s.failed = some tf → tf ≤ t0 + c.T + 2 * c.E) := by
  obtain ⟨h1, h2, h3, h4, h5, h6⟩ := det_run c es (init c) s (det_init c) hr
  have := h4 t0 hsil
  refine ⟨fun hf => ?_, fun tf hf => h6 tf t0 hf hsil⟩
  have := h5 hf
  omega

/-- once the deadline has passed the failure is enabled, and it is the only way forward after E more units -/
theorem C17_detect_enabled (c : Cfg) (s : St) (hf : s.failed = none) (hd : s.deadline ≤ s.now) :
    (step? c s .readFail).isSome := by
  simp [step?, hf, hd]

theorem C17_detect_forced (c : Cfg) (s : St) (hf : s.failed = none) (hd : s.deadline + c.E ≤ s.now) :
    step? c s .tick = none := by
  simp only [step?, hf]
  simp
  intro _ _ _
  omega

/-- the read deadline is never renewed without peer activity — local traffic (`localIter`) restarts
    only the idle timer: after the silence began and the pending renewal was done, `renew` is disabled
    for good -/
theorem C17_no_renewal_without_activity (c : Cfg) (s : St) (hp : s.pending = none) : step? c s .renew = none := by
  simp [step?, hp]

theorem C17_local_traffic_keeps_deadline (c : Cfg) (s s' : St) (hs : step? c s .localIter = some s') :
    s'.deadline = s.deadline ∧ s'.pending = s.pending := by
  simp only [step?] at hs
  split at hs
  · cases hs
  · cases hs; simp

/-- Non-vacuity: P = 2, ρ = 1 (G = 3), E = 1, T = 6: a long quiet stretch with pings only, then silence. -/
def cfg : Cfg := { T := 6, G := 3, E := 1 }
def healthy : List Ev := [.tick, .tick, .activity, .tick, .renew, .rearm, .tick, .tick, .activity, .renew, .rearm, .tick, .tick, .tick,
  .activity, .tick, .renew, .localIter, .rearm, .tick, .tick]
example : ((run? cfg (init cfg) healthy).map (fun s => (s.failed, decide (s.now < s.deadline), decide (s.now < s.idleDl)))) =
    some (none, true, true) := by decide
example : Ev.silence ∉ healthy := by decide
example : ((run? cfg (init cfg) (healthy ++ [.silence, .tick, .localIter, .tick, .tick, .localIter, .tick, .tick, .readFail])).map
    (fun s => (s.silent, s.failed))) = some (some 11, some 16) := by decide

end Jrpc.C17

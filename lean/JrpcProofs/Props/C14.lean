import Jrpc.Locks
/-
  C14 — Concurrent writers never corrupt or interleave WebSocket messages.
  Property theorems only.  Model: `Jrpc.Locks`.  An interleaving of any number of writers is an event
  list; `run?` accepts exactly the interleavings the lock allows.
-/
namespace Jrpc.C14
open Jrpc.Locks

/-- Wire invariant. A chunk is (generation, message number, site). -/
def Inv (s : St) : Prop :=
  (s.wire.map (·.2.1)).Pairwise (· ≤ ·) ∧                       -- message numbers never decrease
  (s.wire.map (·.1)).Pairwise (· ≤ ·) ∧                         -- nor do connection generations
  (∀ c ∈ s.wire, c.2.1 ≤ s.msgNo ∧ c.1 ≤ s.gen) ∧
  (∀ c ∈ s.wire, c.2.1 = s.msgNo → ∀ h, s.holder = some h → c.2.2 = h) ∧
  (∀ c ∈ s.wire, ∀ d ∈ s.wire, c.2.1 = d.2.1 → c.2.2 = d.2.2)  -- a message belongs to one site

theorem inv_init : Inv {} := by
  simp [Inv]

theorem inv_step (s s' : St) (e : Ev) (h : Inv s) (hs : step? s e = some s') : Inv s' := by
  obtain ⟨h1, h1g, h2, h3, h4⟩ := h
  cases e with
  | begin site =>
    simp only [step?] at hs
    cases hh : s.holder with
    | some x => simp [hh] at hs
    | none =>
      simp only [hh, Option.some.injEq] at hs
      subst hs
      refine ⟨h1, h1g, ?_, ?_, h4⟩
      · intro c hc; have := h2 c hc; exact ⟨by simp; omega, this.2⟩
      · intro c hc heq; have := (h2 c hc).1; simp at heq; omega
  | chunk site =>
    simp only [step?] at hs
    split at hs
    · rename_i hh
      simp only [Option.some.injEq] at hs
      subst hs
      refine ⟨?_, ?_, ?_, ?_, ?_⟩
      · simp only [List.map_append, List.map_cons, List.map_nil]
        rw [List.pairwise_append]
        refine ⟨h1, by simp, ?_⟩
        intro a ha b hb
        simp at hb; subst hb
        obtain ⟨c, hc, rfl⟩ := List.mem_map.mp ha
        exact (h2 c hc).1
      · simp only [List.map_append, List.map_cons, List.map_nil]
        rw [List.pairwise_append]
        refine ⟨h1g, by simp, ?_⟩
        intro a ha b hb
        simp at hb; subst hb
        obtain ⟨c, hc, rfl⟩ := List.mem_map.mp ha
        exact (h2 c hc).2
      · intro c hc
        rcases List.mem_append.mp hc with hc | hc
        · exact h2 c hc
        · simp at hc; subst hc; simp
      · intro c hc heq x hx
        rcases List.mem_append.mp hc with hc | hc
        · exact h3 c hc heq x hx
        · simp at hc; subst hc; simp only at hx ⊢; rw [hh] at hx; simpa using hx
      · intro c hc d hd heq
        rcases List.mem_append.mp hc with hc | hc <;> rcases List.mem_append.mp hd with hd | hd
        · exact h4 c hc d hd heq
        · simp at hd; subst hd; exact h3 c hc heq site hh
        · simp at hc; subst hc; exact (h3 d hd heq.symm site hh).symm
        · simp at hc hd; subst hc; subst hd; rfl
    · cases hs
  | swap site =>
    simp only [step?] at hs
    split at hs
    · simp only [Option.some.injEq] at hs
      subst hs
      refine ⟨h1, h1g, ?_, h3, h4⟩
      intro c hc; have := h2 c hc; exact ⟨this.1, by simp; omega⟩
    · cases hs
  | done site =>
    simp only [step?] at hs
    split at hs
    · simp only [Option.some.injEq] at hs
      subst hs
      refine ⟨h1, h1g, h2, ?_, h4⟩
      intro c hc heq x hx; simp at hx
    · cases hs

theorem inv_run (es : List Ev) (s s' : St) (h : Inv s) (hr : run? s es = some s') : Inv s' := by
  induction es generalizing s with
  | nil => simp [run?] at hr; subst hr; exact h
  | cons e es ih =>
    simp only [run?] at hr
    cases hs : step? s e with
    | none => simp [hs] at hr
    | some s1 => simp only [hs, Option.bind_some] at hr; exact ih s1 (inv_step s s1 e h hs) hr

/-- C14_blocks: for every interleaving of every number of writers that the write lock admits, the wire
    is a concatenation of complete messages: between two chunks of one message there is no chunk of
    another message, and all chunks of a message come from one writer. -/
theorem C14_blocks (es : List Ev) (s : St) (hr : run? {} es = some s)
    (i j k : Nat) (hij : i < j) (hjk : j < k) (hk : k < s.wire.length)
    (hsame : (s.wire[i]'(by omega)).2.1 = (s.wire[k]'hk).2.1) :
    (s.wire[j]'(by omega)).2.1 = (s.wire[i]'(by omega)).2.1 ∧
    (s.wire[j]'(by omega)).2.2 = (s.wire[i]'(by omega)).2.2 := by
  obtain ⟨h1, _, _, _, h4⟩ := inv_run es {} s inv_init hr
  have hp := List.pairwise_iff_getElem.mp h1
  have lij := hp i j (by simp; omega) (by simp; omega) hij
  have ljk := hp j k (by simp; omega) (by simp; omega) hjk
  simp only [List.getElem_map] at lij ljk
  have heq : (s.wire[j]'(by omega)).2.1 = (s.wire[i]'(by omega)).2.1 := by omega
  exact ⟨heq, h4 _ (List.getElem_mem _) _ (List.getElem_mem _) heq⟩

/-- C14_excl: a second writer can never enter while one is inside (the refusal is what the trace
    replay detects when a site writes without the lock). -/
theorem C14_excl (s : St) (a b : String) (h : s.holder = some a) : step? s (.begin b) = none := by
  simp [step?, h]

/-- C14_swap: chunks are never written to a connection after it has been replaced: generations along
    the wire never decrease, and the swap itself happens inside a critical section. -/
theorem C14_swap (es : List Ev) (s : St) (hr : run? {} es = some s)
    (i j : Nat) (hij : i < j) (hj : j < s.wire.length) :
    (s.wire[i]'(by omega)).1 ≤ (s.wire[j]'hj).1 := by
  obtain ⟨_, h1g, _, _, _⟩ := inv_run es {} s inv_init hr
  have hp := List.pairwise_iff_getElem.mp h1g
  have := hp i j (by simp; omega) (by simp; omega) hij
  simpa [List.getElem_map] using this

theorem C14_swap_locked (s : St) (site : String) (h : s.holder ≠ some site) : step? s (.swap site) = none := by
  simp [step?, h]

/-- The executable monitor used on hook traces agrees with the model's acceptance. -/
theorem sectionsOK_of_run (es : List Ev) (s s' : St) (hr : run? s es = some s') :
    sectionsOK s.holder es = true := by
  induction es generalizing s with
  | nil => rfl
  | cons e es ih =>
    simp only [run?] at hr
    cases hs : step? s e with
    | none => simp [hs] at hr
    | some s1 =>
      simp only [hs, Option.bind_some] at hr
      have := ih s1 hr
      cases e with
      | begin site =>
        simp only [step?] at hs
        cases hh : s.holder with
        | some x => simp [hh] at hs
        | none => simp only [hh, Option.some.injEq] at hs; subst hs; simpa [sectionsOK] using this
      | chunk site =>
        simp only [step?] at hs
        split at hs
        · rename_i hh; simp only [Option.some.injEq] at hs; subst hs
          simp only [hh, sectionsOK] at this ⊢; simpa using this
        · cases hs
      | swap site =>
        simp only [step?] at hs
        split at hs
        · rename_i hh; simp only [Option.some.injEq] at hs; subst hs
          simp only [hh, sectionsOK] at this ⊢; simpa using this
        · cases hs
      | done site =>
        simp only [step?] at hs
        split at hs
        · rename_i hh; simp only [Option.some.injEq] at hs; subst hs
          simp only [hh, sectionsOK] at this ⊢; simpa using this
        · cases hs

/-- Non-vacuity: three writers, two messages of several chunks and a swap. -/
example : (run? {} [.begin "sendRequest", .chunk "sendRequest", .chunk "sendRequest", .done "sendRequest",
    .begin "swap", .swap "swap", .done "swap", .begin "nextWriter", .chunk "nextWriter", .done "nextWriter"]).map (·.wire)
    = some [(0, 1, "sendRequest"), (0, 1, "sendRequest"), (1, 3, "nextWriter")] := by decide
example : run? {} [.begin "sendRequest", .begin "ping"] = none := by decide

end Jrpc.C14

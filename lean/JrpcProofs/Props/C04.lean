import JrpcProofs.Lemmas.Corr
/-
  C04 — At-most-once execution; exactly once when the caller gets an answer.
  Property theorems only.  Model: `Jrpc.Corr` with the peer's executor as the event `peerExec a`
  (the server starts one handler per request frame it reads — `Jrpc.Frames.execFrame` — so it can
  execute attempt `a` at most as often as frames were written for it).

  A call through a function without the retry tag is one attempt; a retry-tagged call is a sequence of
  attempts, each started only after the previous one returned the connection error (client.go
  `handleRpcCall`; tied by the regenerated retry conjuncts).
-/
namespace Jrpc.C04
open Jrpc Jrpc.Corr

/-- C04_atmost: under every event list — faults, reconnects, sweeps, exit included — at most one
    request frame is written for an attempt and its handler is executed at most once. -/
theorem C04_atmost (es : List Ev) (s : St) (hr : run? {} es = some s) (a : Nat) :
    (s.att a).wrote ≤ 1 ∧ s.execs a ≤ 1 := by
  have h := (reach_inv es s hr).1.execs a
  exact ⟨h.2, Nat.le_trans h.1 h.2⟩

/-- C04_exact: if the caller received a genuine response (a result or a handler error, not the
    synthetic connection error), the handler was executed exactly once. -/
theorem C04_exact_step (es : List Ev) (s s' : St) (hr : run? {} es = some s) (id : NId)
    (hs : step? s (.lookup id true) = some s') :
    ∃ a, s'.fePending = some (id, a) ∧ s.execs a = 1 := by
  simp only [step?] at hs
  split at hs
  · cases hs
  · cases hl : s.getInflight id with
    | none => simp [hl] at hs
    | some a =>
      simp only [hl] at hs
      split at hs
      · rename_i hpos
        cases hs
        have h := (reach_inv es s hr).1.execs a
        exact ⟨a, rfl, by omega⟩
      · cases hs

/-- every genuine message in a mailbox was put there by the frame executor for an executed attempt -/
theorem C04_exact (es : List Ev) (s : St) (hr : run? {} es = some s) (id : NId) (a : Nat)
    (hf : s.fePending = some (id, a) ∨ s.feSending = some (id, a) ∨ s.feDelivered = some (id, a)) :
    s.execs a = 1 := by
  have h1 := (reach_inv es s hr).1
  have := (h1.fe id a hf).2.2.2
  have := h1.execs a
  omega

/-- C04_notify: a notification carries no id, is never registered in `inflight`, and the frame
    executor never delivers a response frame to it: all it can receive is the local acknowledgement. -/
theorem C04_notify (es : List Ev) (s : St) (hr : run? {} es = some s) (a : Nat) (hn : (s.att a).id = .nil) :
    (s.att a).registered = false ∧ (∀ id, s.getInflight id ≠ some a) ∧
    (∀ m, (s.att a).recvd = some m → m = .connErr ∨ m = .ack ∨ m = .genuine .nil) := by
  obtain ⟨h1, _⟩ := reach_inv es s hr
  refine ⟨?_, ?_, ?_⟩
  · cases hreg : (s.att a).registered with
    | false => rfl
    | true => exact absurd hn (h1.regTaken a hreg).2
  · intro id hl
    have := h1.infl id a hl
    rw [hn] at this
    exact this.2.2.2 this.1.symm
  · intro m hm
    have := h1.own a m (Or.inr hm)
    rwa [hn] at this

/-- C04_noresend: neither the reconnect path nor the exit path (nor any other library step) ever
    writes a request frame again: `wrote` is enabled only for the attempt the main loop is handling
    and only while no frame was written for it. -/
theorem C04_noresend (s : St) (a : Nat) (h : (s.att a).wrote ≠ 0) : step? s (.wrote a) = none := by
  simp [step?, h]

theorem C04_wrote_only_when_handling (s s' : St) (a : Nat) (hs : step? s (.wrote a) = some s') :
    s.mainPc = .handling a := by
  simp only [step?] at hs
  split at hs
  · rename_i h; simp at h; exact h.1.1
  · cases hs

/-- Non-vacuity: a call whose connection drops after the request was executed: the caller gets the
    connection error, the handler ran once, and nothing is sent again. -/
def demo : List Ev := [.enq 1 (.num "1"), .take 1, .errCheck 1 false, .register 1, .wrote 1, .peerExec 1, .readerErr, .reconnBegin,
  .cifSend (.num "1") 1 true, .cifClear, .reconnSpawn, .recv 1 true, .swap]
example : (run? {} demo).map (fun s => ((s.att 1).recvd, s.execs 1, (s.att 1).wrote)) = some (some .connErr, 1, 1) := by
  decide
example : ((run? {} demo).bind (fun s => step? s (.peerExec 1))).isNone = true := by decide

end Jrpc.C04

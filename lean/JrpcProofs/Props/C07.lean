import JrpcProofs.Lemmas.Stream
/-
  C07 — Channel streams are ordered, lossless, duplicate-free and mutually independent.
  Property theorems only.  Model: `Jrpc.Stream`.  A run is any event list accepted by `run?` from the
  initial state: all interleavings of forwarder, transport, frame executor, sink, buffer goroutine,
  consumer and cancellation; all stream lengths; all consumer speeds.
-/
namespace Jrpc.C07
open Jrpc.Stream

/-- C07_fifo: in every reachable state, what the caller received followed by what is in transit is
    exactly what the forwarder took from the handler's channel, in the same order: nothing reordered,
    nothing duplicated, nothing invented. -/
theorem C07_fifo (es : List Ev) (s : St) (hr : run? {} es = some s) :
    s.sent = s.recv ++ s.inTransit := (run_inv es {} s inv_init hr).eq

/-- C07_lossless: once the pipeline is quiet on a run without cancellation or loss (nothing buffered,
    discarded, orphaned or on the wire), every value sent has been delivered, each exactly once. -/
theorem C07_lossless (es : List Ev) (s : St) (hr : run? {} es = some s)
    (hq : s.inTransit = []) : s.recv = s.sent := by
  have := C07_fifo es s hr
  rw [hq] at this; simpa using this.symm

/-- C07_close: when the caller's channel has been closed because the handler closed its channel (the
    close notification was executed with the sink present) and the subscription was never cancelled,
    the caller has received every value the handler sent before closing. -/
theorem C07_close (es : List Ev) (s : St) (hr : run? {} es = some s)
    (hc : s.closed = true) (hh : s.hCloseSeen = true) (hn : s.ctxCancelled = false) :
    s.recv = s.sent := by
  have inv := run_inv es {} s inv_init hr
  obtain ⟨hw, _, hic, ho, _⟩ := inv.hclose hh
  have hd : s.dropped = [] := by
    cases hdr : s.dropped with
    | nil => rfl
    | cons x xs => have := inv.dropCtx (by simp [hdr]); rw [hn] at this; cases this
  have hp : s.pending = none := by
    cases hpe : s.pending with
    | none => rfl
    | some v => have := (inv.pend (by simp [hpe])).2.1; rw [hic] at this; cases this
  rcases inv.closedWhy hc with h1 | ⟨h2, h3⟩
  · rw [hn] at h1; cases h1
  · have hin := (inv.seen h2).2
    have := inv.eq
    simp [St.inTransit, hw, ho, hd, hp, hin, h3] at this
    exact this.symm

/-- The close notification is only ever executed after every value frame before it. -/
theorem C07_close_after_values (s s' : St) (found : Bool) (hs : step? s (.chclose found) = some s') :
    s.wireVals = [] ∧ s.pending = none := by
  simp only [step?] at hs
  split at hs
  · cases hs
  · rename_i hc
    simp at hc
    obtain ⟨⟨⟨_, h2⟩, _⟩, h4⟩ := hc
    exact ⟨h2, by cases hp : s.pending <;> simp_all⟩

/-- C07_wire: the response announcing a channel is executed (and, the transport being FIFO, is on the
    wire) before that channel's first value: no value frame is executed while the announcement is
    still in flight, and none is forwarded before the announcement was written. -/
theorem C07_wire (s s' : St) :
    (∀ found, step? s (.chval found) = some s' → s.wireReg = false) ∧
    (∀ v, step? s (.fwdVal v) = some s' → s.registered = true) := by
  constructor
  · intro found hs
    simp only [step?] at hs
    split at hs
    · cases hs
    · rename_i h; simpa using h
  · intro v hs
    simp only [step?] at hs
    split at hs
    · rename_i h; simp at h; exact h.1
    · cases hs

/-- C07_isolation: an event of subscription `ch` leaves every other subscription's state — what it
    has received included — untouched. -/
theorem C07_isolation (ss ss' : Subs) (ch other : Nat) (e : Ev) (hne : other ≠ ch)
    (hs : ss.step? ch e = some ss') : ss' other = ss other := by
  unfold Subs.step? at hs
  cases h : Stream.step? (ss ch) e with
  | none => simp [h] at hs
  | some s1 => simp [h] at hs; subst hs; simp [hne]

/-- C07_nostall: whenever the frame executor is inside the sink with a value it cannot place (the
    32-slot buffer is full), the buffer goroutine can take a value out of that buffer without any
    help from the consumer — or the subscription is cancelled and the value is discarded.  A stalled
    consumer therefore never blocks the executor for good. -/
theorem C07_nostall (es : List Ev) (s : St) (hr : run? {} es = some s) (v : Nat)
    (hp : s.pending = some v) :
    (step? s .pushed).isSome ∨ (step? s .dropped).isSome ∨ (step? s .bufIn).isSome := by
  have inv := run_inv es {} s inv_init hr
  by_cases hc : s.ctxCancelled = true
  · right; left; simp [step?, hp, hc]
  · have hcf : s.ctxCancelled = false := by simpa using hc
    have hd : s.dropped = [] := by
      cases hdr : s.dropped with
      | nil => rfl
      | cons x xs => have := inv.dropCtx (by simp [hdr]); rw [hcf] at this; cases this
    by_cases hroom : s.incoming.length < incomingCap
    · left; simp [step?, hp, hroom, hd]
    · right; right
      have hic := (inv.pend (by simp [hp])).2.1
      have hns : s.inSeenClosed = false := by
        cases hsn : s.inSeenClosed with
        | false => rfl
        | true => have := (inv.seen hsn).1; rw [hic] at this; cases this
      have hncl : s.closed = false := by
        cases hcl : s.closed with
        | false => rfl
        | true =>
          rcases inv.closedWhy hcl with h1 | ⟨h2, _⟩
          · rw [hcf] at h1; cases h1
          · rw [hns] at h2; cases h2
      have : s.incoming ≠ [] := by
        intro he; simp [he, incomingCap] at hroom
      cases hin : s.incoming with
      | nil => exact absurd hin this
      | cons x xs => simp [step?, hncl, hns, hin]

/-- Non-vacuity: three values, the consumer slower than the producer, handler close at the end. -/
def demo : List Ev := [.reg, .fwdVal 0, .sinkReg, .fwdVal 1, .chval true, .pushed, .fwdVal 2, .fwdClose,
  .chval true, .pushed, .bufIn, .chval true, .pushed, .chclose true, .bufOut, .bufIn, .bufIn,
  .bufInClosed, .bufOut, .bufOut, .bufClose .drained]
example : (run? {} demo).map (fun s => (s.recv, s.sent, s.closed, s.hCloseSeen)) = some ([0, 1, 2], [0, 1, 2], true, true) := by
  decide

end Jrpc.C07

import Jrpc.Errors
/-
  C11 — Handler errors arrive intact; registered error types round-trip by code.
  Property theorems only.  Model: `Jrpc.Errors`, for every application behaviour `app` and every
  pair of registration tables.
-/
namespace Jrpc.C11
open Jrpc Jrpc.Errors

/-- `val` never yields a nil error. -/
theorem val_ne_none (app : App) (reg : Option Registry) (e : WireErr) : val app reg e ≠ .none := by
  unfold val
  repeat' split
  all_goals simp

/-- C11_nil: the caller's error is nil iff the handler's error is nil. -/
theorem C11_nil (app : App) (sreg creg : Option Registry) (herr : Option ErrVal) (hval : String) :
    (endToEnd app sreg creg herr hval).2 = .none ↔ herr = none := by
  cases herr with
  | none => simp [endToEnd]
  | some e => simp [endToEnd, val_ne_none]

/-- C11_zero: a non-nil handler error leaves the caller's value at the zero value; a nil one hands the
    handler's value over. -/
theorem C11_zero (app : App) (sreg creg : Option Registry) (herr : Option ErrVal) (hval : String) :
    (herr ≠ none → (endToEnd app sreg creg herr hval).1 = none) ∧
    (herr = none → (endToEnd app sreg creg herr hval).1 = some hval) := by
  cases herr <;> simp [endToEnd]

/-- C11_generic: an error whose code the client has no type for arrives as the generic RPC error
    carrying exactly what the server put on the wire; for a plain, unregistered type that is code 1
    and the handler's message. -/
theorem C11_generic (app : App) (sreg : Option Registry) (creg : Option Registry) (e : ErrVal)
    (hc : creg = none ∨ ∃ r, creg = some r ∧ r.byCode.lookup (createError app sreg e).code = none) :
    val app creg (createError app sreg e) = .generic (createError app sreg e) := by
  rcases hc with h | ⟨r, h, hl⟩
  · subst h; rfl
  · subst h; simp [val, hl]

theorem C11_generic_plain (app : App) (sreg : Option Registry) (e : ErrVal)
    (hp : app.cap e.ty = .plain)
    (hu : sreg = none ∨ ∃ r, sreg = some r ∧ r.byType.lookup e.ty = none) :
    createError app sreg e = { code := 1, msg := e.msg } := by
  rcases hu with h | ⟨r, h, hl⟩
  · subst h; simp [createError, hp]
  · subst h; simp [createError, hp, hl]

/-- C11_code: a registered (non-codec) type is sent under its registered code, with the handler's message. -/
theorem C11_code (app : App) (r : Registry) (e : ErrVal) (c : Int)
    (hnc : app.cap e.ty ≠ .codec) (hr : r.byType.lookup e.ty = some c) :
    (createError app (some r) e).code = c ∧ (createError app (some r) e).msg = e.msg := by
  unfold createError
  cases hcap : app.cap e.ty with
  | codec => exact absurd hcap hnc
  | plain => simp [hr]
  | marshalable => simp only [hr]; cases app.marshal e <;> simp

/-- C11_typed (marshalable): registered on both sides under the same code, `UnmarshalJSON ∘ MarshalJSON`
    preserving the content: the caller gets a value of exactly the registered type with equal content. -/
theorem C11_typed_marshalable (app : App) (sr cr : Registry) (e : ErrVal) (c : Int) (m : String)
    (hcap : app.cap e.ty = .marshalable) (hcapc : app.cap { e.ty with ptr := true } = .marshalable)
    (hs : sr.byType.lookup e.ty = some c) (hcl : cr.byCode.lookup c = some e.ty)
    (hm : app.marshal e = some m) (hne : m ≠ "") (hinv : app.unmarshal e.ty m = some e.content) :
    val app (some cr) (createError app (some sr) e) = .typed e.ty e.content := by
  simp [createError, hcap, hcapc, hs, hm, val, hcl, hne, hinv]

/-- C11_typed (codec): the codec supplies its own code; if the client registered the type under that
    code and `FromJSONRPCError ∘ ToJSONRPCError` preserves the content, the caller gets that type. -/
theorem C11_typed_codec (app : App) (sreg : Option Registry) (cr : Registry) (e : ErrVal) (w : WireErr)
    (hcap : app.cap e.ty = .codec) (hcapc : app.cap { e.ty with ptr := true } = .codec)
    (hw : app.toWire e = some w)
    (hcl : cr.byCode.lookup w.code = some e.ty) (hinv : app.fromWire e.ty w = some e.content) :
    val app (some cr) (createError app sreg e) = .typed e.ty e.content := by
  have : createError app sreg e = w := by simp [createError, hcap, hw]
  rw [this]; simp [val, hcl, hcapc, hinv]

/-- C11_typed (plain): a plain registered type arrives as (the zero value of) exactly that type. -/
theorem C11_typed_plain (app : App) (sr cr : Registry) (e : ErrVal) (c : Int)
    (hcap : app.cap e.ty = .plain) (hcapc : app.cap { e.ty with ptr := true } = .plain)
    (hs : sr.byType.lookup e.ty = some c) (hcl : cr.byCode.lookup c = some e.ty) :
    val app (some cr) (createError app (some sr) e) = .typed e.ty "" := by
  simp [createError, hcap, hcapc, hs, val, hcl]

/-- C11_degrade: whatever the tables and the codecs do, the caller's error is either the generic
    error carrying the wire error, or a value of the type the client registered under that code —
    never nil (C11_nil), and `val` is total (no panic). -/
theorem C11_degrade (app : App) (creg : Option Registry) (w : WireErr) :
    val app creg w = .generic w ∨
    ∃ r t c, creg = some r ∧ r.byCode.lookup w.code = some t ∧ val app creg w = .typed t c := by
  unfold val
  cases creg with
  | none => left; rfl
  | some r =>
    simp only
    cases hl : r.byCode.lookup w.code with
    | none => left; rfl
    | some t =>
      simp only
      cases app.cap { t with ptr := true } with
      | codec => cases hf : app.fromWire t w with
        | none => left; rfl
        | some c => right; exact ⟨r, t, c, rfl, hl, rfl⟩
      | plain => right; exact ⟨r, t, "", rfl, hl, rfl⟩
      | marshalable =>
        cases hm : w.metaJ with
        | none => right; exact ⟨r, t, "", rfl, hl, rfl⟩
        | some m =>
          simp only
          by_cases he : m = ""
          · right; exact ⟨r, t, "", rfl, hl, by simp [he]⟩
          · cases hu : app.unmarshal t m with
            | none => left; simp [he]
            | some c => right; exact ⟨r, t, c, rfl, hl, by simp [he]⟩

/-- The connection error is pre-registered by `NewErrors` (C05's "typed connection error"). -/
theorem connection_error_typed (app : App) (hcap : app.cap connErrTy = .plain) (msg : String) :
    val app (some newErrors) { code := codeTempWS, msg := msg } = .typed connErrTy "" := by
  have hcap' : app.cap { name := "RPCConnectionError", ptr := true } = .plain := hcap
  simp [val, newErrors, connErrTy, hcap']

/-- Non-vacuity: a marshalable error registered as a pointer on both sides under code 7. -/
def app0 : App := {
  cap := fun t => if t.name = "M" then .marshalable else if t.name = "C" then .codec else .plain
  marshal := fun e => some e.content
  unmarshal := fun _ m => some m
  toWire := fun e => some { code := 9, msg := e.msg, data := some e.content }
  fromWire := fun _ w => w.data }
def tM : Ty := { name := "M", ptr := true }
def reg7 : Registry := newErrors.register 7 tM
example : endToEnd app0 (some reg7) (some reg7) (some ⟨tM, "bad", "k"⟩) "v" = (none, .typed tM "k") := by
  decide
end Jrpc.C11

import Jrpc.Frames
import JrpcProofs.Lemmas.Framing
/-
  C09 — Server replies conform to JSON-RPC 2.0 for every request, single or batch.

  Property theorems only.  Model: `Jrpc.Framing` / `Jrpc.Dispatch` (HTTP) ; the WebSocket clause
  (`C09_ws_*`) is stated over `Jrpc.wsCall` (`handleCall`: `handle true` plus the writer selection —
  the discard writer for id-less frames).
-/
namespace Jrpc.C09
open Jrpc

/-- The response a batch element is owed (none = it is a notification that produced nothing). -/
abbrev respOf (h : Handler) (r : RawReq) : Option Resp := (elemOut h r).1

/-- `handle` stays silent only for a notification (channel results need WebSocket). -/
theorem handle_silent_only_notification (h : Handler) (req : Req)
    (hs : (h.handle false req).resp = none) : req.id = .nil := by
  unfold Handler.handle at hs
  repeat' split at hs
  all_goals simp_all

theorem httpWire_none_only_notification (h : Handler) (req : Req)
    (hs : httpWire req.id (h.handle false req) = none) : req.id = .nil := by
  unfold httpWire at hs
  split at hs
  · rename_i hid; simpa using hid
  · exact handle_silent_only_notification h req hs

/-- C09_wellformed: the reply is empty or exactly one JSON value. -/
theorem C09_wellformed (h : Handler) (maxSize size : Nat) (body : BodyIn) :
    (h.handleReader maxSize size body).toks = [] ∨
    oneValue (h.handleReader maxSize size body).toks = true := by
  unfold Handler.handleReader
  split
  · right; rfl
  · split
    · right; rfl
    · right; rfl
    · right; rfl
    · rename_i rs _
      obtain ⟨ht, hs, _⟩ := fold_batch h rs {}
      simp only [BatchW.finish]
      rw [ht, hs]
      cases hrs : rs.filterMap (fun r => (elemOut h r).1) with
      | nil => left; simp [sepToks]
      | cons r rest => right; simpa using oneValue_sep r rest
    · right; rfl
    · split
      · right; rfl
      · simp only
        split
        · right; rfl
        · left; rfl

/-- C09_empty: an empty reply happens only when the body consisted solely of notifications. -/
theorem C09_empty (h : Handler) (maxSize size : Nat) (body : BodyIn)
    (he : (h.handleReader maxSize size body).toks = []) :
    (∃ r, body = .single r ∧ normalizeID r.id = some .nil) ∨
    (∃ rs, body = .batch rs ∧ ∀ r ∈ rs, normalizeID r.id = some .nil) := by
  unfold Handler.handleReader at he
  split at he
  · simp at he
  · split at he
    · simp at he
    · simp at he
    · simp at he
    · rename_i rs _
      right
      refine ⟨rs, rfl, ?_⟩
      obtain ⟨ht, hs, _⟩ := fold_batch h rs {}
      simp only [BatchW.finish] at he
      rw [ht, hs] at he
      cases hrs : rs.filterMap (fun r => (elemOut h r).1) with
      | cons r rest => rw [hrs] at he; simp [sepToks] at he
      | nil =>
        intro r hr
        have hnone : (elemOut h r).1 = none := by
          have := List.filterMap_eq_nil_iff.mp hrs r hr
          simpa using this
        unfold elemOut at hnone
        split at hnone
        · simp at hnone
        · rename_i id hid
          have := httpWire_none_only_notification h ⟨_, _, _⟩ hnone
          simp at this
          rw [hid, this]
    · simp at he
    · rename_i r
      left
      refine ⟨r, rfl, ?_⟩
      split at he
      · simp at he
      · rename_i id hid
        simp only at he
        split at he
        · simp at he
        · rename_i hnone
          have := httpWire_none_only_notification h ⟨_, _, _⟩ hnone
          simp at this
          rw [hid, this]

/-- C09_batch: a non-empty batch is answered by the array of the responses owed to its elements,
    in request order, with `[`, `,`, `]` exactly around and between them — and by nothing at all
    when no element is owed a response. -/
theorem C09_batch (h : Handler) (maxSize size : Nat) (r : RawReq) (rs : List RawReq)
    (hsz : size ≤ maxSize) :
    (h.handleReader maxSize size (.batch (r :: rs))).toks
      = (if ((r :: rs).filterMap (respOf h)).isEmpty then []
         else sepToks false ((r :: rs).filterMap (respOf h)) ++ [.rbrack])
    ∧ objsOf (h.handleReader maxSize size (.batch (r :: rs))).toks = (r :: rs).filterMap (respOf h)
    ∧ (h.handleReader maxSize size (.batch (r :: rs))).invoked
      = (r :: rs).filterMap (fun r => (elemOut h r).2) := by
  have hns : ¬ size > maxSize := by omega
  obtain ⟨ht, hs, hi⟩ := fold_batch h (r :: rs) {}
  have htoks : (h.handleReader maxSize size (.batch (r :: rs))).toks
      = (if ((r :: rs).filterMap (respOf h)).isEmpty then []
         else sepToks false ((r :: rs).filterMap (respOf h)) ++ [.rbrack]) := by
    simp only [Handler.handleReader, hns, if_false, BatchW.finish]
    rw [ht, hs]
    generalize (r :: rs).filterMap (fun r => (elemOut h r).1) = owed
    cases owed <;> simp [sepToks]
  refine ⟨htoks, ?_, ?_⟩
  · rw [htoks]
    generalize (r :: rs).filterMap (respOf h) = owed
    cases owed with
    | nil => simp [objsOf]
    | cons x xs => simp [objsOf_append, objsOf_sep, objsOf]
  · simp only [Handler.handleReader, hns, if_false]
    rw [hi]; simp

/-- C09_http_notification_silent: over HTTP too a notification is never answered — not even when it names
    an unknown method, has the wrong arity or undecodable params, or panics: a single notification is
    answered by an empty body, and a notification inside a batch contributes no object to the reply array
    (so the array holds exactly one object per element that is owed one). -/
theorem C09_http_notification_silent (h : Handler) (maxSize size : Nat) (r : RawReq)
    (hsz : size ≤ maxSize) (hn : normalizeID r.id = some .nil) :
    (h.handleReader maxSize size (.single r)).toks = [] ∧ (elemOut h r).1 = none := by
  have hns : ¬ size > maxSize := by omega
  constructor
  · simp [Handler.handleReader, hns, hn, httpWire]
  · simp [elemOut, hn, httpWire]

/-- C09_codes: the four library errors, each without running a handler. -/
theorem C09_codes_blank (h : Handler) (maxSize size : Nat) (hsz : size ≤ maxSize) :
    h.handleReader maxSize size .blank
      = { status := 400, toks := [.obj ⟨.nil, .error (-32600)⟩], invoked := [] } := by
  have hns : ¬ size > maxSize := by omega
  simp [Handler.handleReader, hns, codeInvalidRequest]

theorem C09_codes_emptyBatch (h : Handler) (maxSize size : Nat) (hsz : size ≤ maxSize) :
    h.handleReader maxSize size (.batch [])
      = { status := 400, toks := [.obj ⟨.nil, .error (-32600)⟩], invoked := [] } := by
  have hns : ¬ size > maxSize := by omega
  simp [Handler.handleReader, hns, codeInvalidRequest]

theorem C09_codes_malformed (h : Handler) (maxSize size : Nat) (pid : WireId) (hsz : size ≤ maxSize) :
    h.handleReader maxSize size (.singleUndecodable pid)
      = { status := 500, toks := [.obj ⟨echoOf pid, .error (-32700)⟩], invoked := [] }
    ∧ h.handleReader maxSize size .batchUndecodable
      = { status := 500, toks := [.obj ⟨.nil, .error (-32700)⟩], invoked := [] } := by
  have hns : ¬ size > maxSize := by omega
  simp [Handler.handleReader, hns, codeParseError]

theorem C09_codes_unknownMethod (h : Handler) (chanOK : Bool) (req : Req)
    (hu : h.resolve req.method = none) :
    h.handle chanOK req = { resp := some ⟨req.id, .error (-32601)⟩, invoked := none } := by
  simp [Handler.handle, hu, codeMethodNotFound]

theorem C09_codes_wrongArity (h : Handler) (chanOK : Bool) (req : Req) (m : Method) (n : Nat)
    (hm : h.resolve req.method = some m) (hch : (m.isChan && !chanOK) = false)
    (hraw : m.raw = false) (hc : req.params.count? = some n) (hn : n ≠ m.nParams) :
    h.handle chanOK req = { resp := some ⟨req.id, .error (-32602)⟩, invoked := none } := by
  simp [Handler.handle, hm, hch, hraw, hc, hn, codeInvalidParams]

/-- C09_object (id clause): every object `handle` emits carries the request's normalised id. -/
theorem C09_id_echo (h : Handler) (chanOK : Bool) (req : Req) (r : Resp)
    (hr : (h.handle chanOK req).resp = some r) : r.id = req.id := by
  unfold Handler.handle at hr
  repeat' split at hr
  all_goals first | (simp at hr; done) | (simp at hr; rw [← hr])

/-- C09_ws: a frame with a valid id is answered exactly once — by `handle` itself or, for a
    channel result, by the forwarder's registration reply — and an id-less frame whose handler
    ran normally gets nothing. -/
theorem C09_ws_answered (h : Handler) (req : Req) (hid : req.id ≠ .nil) :
    ((h.handle true req).resp.isSome ∧ (h.handle true req).chanReg = false) ∨
    ((h.handle true req).resp = none ∧ (h.handle true req).chanReg = true) := by
  unfold Handler.handle
  repeat' split
  all_goals simp_all

theorem C09_ws_notification (h : Handler) (req : Req) (m : Method)
    (hid : req.id = .nil) (hm : h.resolve req.method = some m)
    (hraw : m.raw = true) (hb : m.behav ≠ .panics) :
    (h.handle true req).resp = none ∧ (h.handle true req).invoked = some m.tag := by
  unfold Handler.handle
  simp only [hm, hraw]
  cases hbb : m.behav <;> simp_all

def exM0 : Method := { tag := "T.Add", ptypes := ["int"], hasCtx := false, raw := false,
                       out := .valErr, isChan := false, behav := .ok }
def exH0 : Handler := { methods := [("T.Add".toList, exM0)], aliases := [] }

/-- C09_ws (notification clause, full strength): over WebSocket an id-less frame puts nothing on the
    wire, whatever the handler table, method, params and handler behaviour — unknown method, wrong
    arity, undecodable params and a panicking handler included (they all go to the discard writer). -/
theorem C09_ws_notification_silent (h : Handler) (req : Req) (hid : req.id = .nil) :
    (wsCall h req).2 = none := by
  simp [wsCall, wsWire, hid]

/-- C09_ws (id clause, full strength): a frame with a string or number id gets exactly one response
    frame — written by the handler goroutine through `nextWriter`, or, for a channel result, by the
    forwarder at registration — and that frame echoes the request's id. -/
theorem C09_ws_exactly_one (h : Handler) (req : Req) (hid : req.id ≠ .nil) :
    (((wsCall h req).2.isSome ∧ (wsCall h req).1.chanReg = false) ∨
     ((wsCall h req).2 = none ∧ (wsCall h req).1.chanReg = true)) ∧
    (∀ r, (wsCall h req).2 = some r → r.id = req.id) := by
  have hne : (req.id == NId.nil) = false := by simpa using hid
  refine ⟨?_, ?_⟩
  · simpa [wsCall, wsWire, hne] using C09_ws_answered h req hid
  · intro r hr
    simp only [wsCall, wsWire, hne] at hr
    exact C09_id_echo h true req r (by simpa using hr)

/-- The executor appends to the wire exactly what `wsCall` says, for every frame. -/
theorem C09_ws_exec_wire (h : Handler) (s s' : ExecState) (f : FrameIn) (hh : s.hasHandler = true)
    (hx : execFrame h s f = .ok s') :
    s'.wire = s.wire ∨
    ∃ id, normalizeID f.id = some id ∧ s'.wire = s.wire ++ (wsCall h ⟨id, f.method.toList, f.call⟩).2.toList := by
  unfold execFrame at hx
  repeat' split at hx
  all_goals first
    | (simp [hh] at *; done)
    | (simp at hx; subst hx; simp; done)
    | (simp [handleResponse, cancelCtx, handleChanMessage, handleChanClose] at hx
       repeat' split at hx
       all_goals first | (simp at hx; subst hx; simp; done) | (simp at hx; done))
    | (rename_i key hkey _ _ _ _ _ _ o w heq _
       injection hx with hx
       subst hx
       right
       exact ⟨key, hkey, by simp [heq]⟩)

/-- An endpoint without handlers (a client built without `WithClientHandler`) answers a request frame with
    method-not-found and drops a notification: the peer's call returns an error instead of waiting (F35). -/
theorem C09_ws_no_handler (h : Handler) (s : ExecState) (f : FrameIn) (id : NId)
    (hd : f.decodable = true) (hid : normalizeID f.id = some id) (hh : s.hasHandler = false)
    (hcall : f.method ≠ "" ∧ f.method ≠ "xrpc.cancel" ∧ f.method ≠ "xrpc.ch.val" ∧ f.method ≠ "xrpc.ch.close") :
    execFrame h s f =
      .ok (if id == .nil then s else { s with wire := s.wire ++ [⟨id, .error codeMethodNotFound⟩] }) := by
  obtain ⟨h1, h2, h3, h4⟩ := hcall
  unfold execFrame
  simp only [hd, hid, h1, h2, h3, h4, hh]
  cases hn : (id == NId.nil) <;> simp

/-- Non-vacuity: a notification for an unknown method, and one for a known method with a wrong arity,
    are silent on the wire although `handle` produced an error object for each. -/
example : (wsCall exH0 ⟨.nil, "T.Nope".toList, .absent⟩).2 = none
    ∧ ((exH0.handle true ⟨.nil, "T.Nope".toList, .absent⟩).resp).isSome = true := by decide

/-- C09_batchWriter_refines: the real `batchWriter` — driven Write by Write, with `nextElem` before every
    element and `finish` at the end — emits exactly the element-level reply the theorems above speak of:
    the outputs of the elements that wrote something, in order, comma-separated inside one pair of
    brackets, and nothing at all when no element wrote anything.  For every number of elements, every
    chunking of every element's output (empty writes included). -/
theorem C09_batchWriter_refines (elems : List (List String)) :
    BatchWriter.run elems = BatchWriter.spec elems := by
  have h := BatchWriter.run_from {} elems
  simp only at h
  unfold BatchWriter.run BatchWriter.spec BatchWriter.BW.finish
  rw [h.1, h.2]
  cases hs : BatchWriter.specFrom false elems <;> simp [hs]

/-- Non-vacuity: a notification (no writes), an element written in two chunks with an empty write in
    between, a notification, a one-chunk element. -/
example : BatchWriter.run [[], ["{\"a\"", "", ":1}"], [""], ["{}"]] =
    [.lbrack, .data "{\"a\"", .data ":1}", .comma, .data "{}", .rbrack] := by decide
example : BatchWriter.run [[], [""], []] = [] := by decide

/-- Non-vacuity: a concrete mixed batch (call, notification, invalid id, unknown method). -/
def exM : Method := { tag := "T.Add", ptypes := ["int"], hasCtx := false, raw := false,
                      out := .valErr, isChan := false, behav := .ok }
def exH : Handler := { methods := [("T.Add".toList, exM)], aliases := [] }
def exBatch : List RawReq :=
  [ ⟨.num "1", "T.Add".toList, .arr [["int"]]⟩,
    ⟨.absent, "T.Add".toList, .arr [["int"]]⟩,
    ⟨.invalid "[1]", "T.Add".toList, .arr [["int"]]⟩,
    ⟨.str "x", "T.Nope".toList, .absent⟩ ]

example : (exH.handleReader 100 10 (.batch exBatch)).toks =
    [.lbrack, .obj ⟨.num "1", .result true⟩, .comma, .obj ⟨.nil, .error (-32700)⟩, .comma,
     .obj ⟨.str "x", .error (-32601)⟩, .rbrack]
    ∧ (exH.handleReader 100 10 (.batch exBatch)).invoked = ["T.Add", "T.Add"] := by decide

example : (exH.handleReader 100 10 (.batch [⟨.absent, "T.Add".toList, .arr [["int"]]⟩])).toks = [] := by
  decide

end Jrpc.C09

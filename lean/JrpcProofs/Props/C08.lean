import JrpcProofs.Lemmas.Stream
/-
  C08 — Every client channel terminates: closed once, nothing after close, prefix only.
  Property theorems only.  Model: `Jrpc.Stream` with the four termination causes as events:
  handler close (`chclose`), subscription context cancel (`ctxCancel`), connection loss and client
  close (`ccClose`, issued by `closeChans` from `tryReconnect` and from the exit path).
-/
namespace Jrpc.C08
open Jrpc.Stream

/-- C08_prefix: in every reachable state — whatever causes of termination occurred, in whatever
    order, racing with whatever deliveries — what the caller received is a prefix of what the handler
    sent. -/
theorem C08_prefix (es : List Ev) (s : St) (hr : run? {} es = some s) : s.recv <+: s.sent :=
  ⟨s.inTransit, (run_inv es {} s inv_init hr).eq.symm⟩

/-- C08_once: the caller's channel is closed by exactly one event; a second close is never enabled. -/
theorem C08_once (s : St) (c : Cause) (hc : s.closed = true) : step? s (.bufClose c) = none := by
  simp [step?, hc]

/-- closed stays closed, and (C08_silent) nothing is delivered after the close. -/
theorem C08_silent (s s' : St) (e : Ev) (hc : s.closed = true) (hs : step? s e = some s') :
    s'.closed = true ∧ s'.recv = s.recv := by
  cases e <;> simp only [step?] at hs <;> repeat' split at hs
  all_goals first | (cases hs; done) | (cases hs; simp_all)

theorem C08_silent_run (es : List Ev) (s s' : St) (hc : s.closed = true) (hr : run? s es = some s') :
    s'.closed = true ∧ s'.recv = s.recv := by
  induction es generalizing s with
  | nil => simp [run?] at hr; subst hr; exact ⟨hc, rfl⟩
  | cons e es ih =>
    simp only [run?] at hr
    cases hs : step? s e with
    | none => simp [hs] at hr
    | some s1 =>
      simp only [hs, Option.bind_some] at hr
      obtain ⟨h1, h2⟩ := C08_silent s s1 e hc hs
      obtain ⟨h3, h4⟩ := ih s1 h1 hr
      exact ⟨h3, by rw [h4, h2]⟩

/-- C08_nocrash: neither `close(incoming)` twice nor a send on the closed `incoming` can happen —
    whichever of handler close, connection loss and client close come first, or race. -/
theorem C08_nocrash (es : List Ev) (s : St) (hr : run? {} es = some s) : s.crashed = false :=
  (run_inv es {} s inv_init hr).nocrash

/-- C08_closes (enabledness form): after each termination cause the close of the caller's channel is
    enabled as soon as the consumer has drained what precedes it — immediately on context cancel. -/
theorem C08_closes_ctx (s : St) (hc : s.closed = false) (hx : s.ctxCancelled = true) :
    (step? s (.bufClose .ctx)).isSome := by
  simp [step?, hc, hx]

theorem C08_closes_drained (s : St) (hc : s.closed = false) (hi : s.inClosed = true)
    (he : s.incoming = []) (hl : s.list = []) :
    (step? s .bufInClosed).isSome ∨ (step? s (.bufClose .drained)).isSome := by
  by_cases hs : s.inSeenClosed = true
  · right; simp [step?, hc, hs, hl]
  · left; simp [step?, hc, hs, hi, he]

/-- … and while values are still buffered the buffer goroutine has a move towards draining them
    (taking from `incoming` or handing to the consumer). -/
theorem C08_drains (s : St) (hc : s.closed = false) (hn : s.inSeenClosed = false)
    (h : s.incoming ≠ [] ∨ s.list ≠ []) :
    (step? s .bufIn).isSome ∨ (step? s .bufOut).isSome := by
  rcases h with h | h
  · left
    cases hin : s.incoming with
    | nil => exact absurd hin h
    | cons x xs => simp [step?, hc, hn, hin]
  · right
    cases hl : s.list with
    | nil => exact absurd hl h
    | cons x xs => simp [step?, hc, hl]

/-- Non-vacuity: connection loss with one value delivered, one buffered and one still on the wire. -/
def lossDemo : List Ev := [.reg, .sinkReg, .fwdVal 0, .fwdVal 1, .fwdVal 2, .chval true, .pushed, .chval true, .pushed,
  .bufIn, .bufOut, .ccClose, .bufIn, .bufInClosed, .bufOut, .bufClose .drained]
example : (run? {} lossDemo).map (fun s => (s.recv, s.sent, s.closed, s.wireVals)) = some ([0, 1], [0, 1, 2], true, [2]) := by
  decide
/-- cancel racing the handler's close -/
example : (run? {} [.reg, .sinkReg, .fwdVal 0, .fwdClose, .ctxCancel, .chval true, .dropped, .chclose true,
    .bufClose .ctx]).map (fun s => (s.recv, s.closed, s.crashed)) = some ([], true, false) := by decide

end Jrpc.C08

import Jrpc.Call
/-
  C01 — Remote calls are transparent: args in, results out, on every transport.
  Property theorems only.  Model: `Jrpc.Call`, for every codec (encoding/json and the custom
  encoder/decoder pairs are parameters), every signature and every argument list.
-/
namespace Jrpc.C01
open Jrpc Jrpc.Call

variable {V J : Type}

/-- Round trip of a whole argument list, declared type by declared type. -/
def rtAll (c : Codec V J) : List String → List V → Option (List (Arg V))
  | [], [] => some []
  | t :: ts, v :: vs =>
    match roundTrip c t v with
    | none => none
    | some v' => (rtAll c ts vs).map (Arg.val v' :: ·)
  | _, _ => none

/-- Encoding one argument on the client and decoding it on the server is its round trip. -/
theorem enc_dec (c : Codec V J) (t : String) (v : V) :
    (encodeOne c t (.val v)).bind (decodeOne c t) = (roundTrip c t v).map Arg.val := by
  unfold encodeOne decodeOne roundTrip
  cases he : c.encoder t <;> cases hd : c.decoder t <;> simp only [hd]
  · cases hm : c.marshal v <;> simp [hm]
  · cases hm : c.marshal v <;> simp [hm]
  · rename_i e
    cases hev : e v <;> simp
    rename_i w
    cases hm : c.marshal w <;> simp
  · rename_i e d
    cases hev : e v <;> simp
    rename_i w
    cases hm : c.marshal w <;> simp

theorem encodeAll_decodeAll (c : Codec V J) :
    ∀ (ts : List String) (vs : List V),
      (encodeAll c ts (vs.map Arg.val)).bind (decodeAll c ts) = rtAll c ts vs
  | [], [] => rfl
  | [], _ :: _ => rfl
  | _ :: _, [] => rfl
  | t :: ts, v :: vs => by
    have ih := encodeAll_decodeAll c ts vs
    have hed := enc_dec c t v
    simp only [List.map_cons, encodeAll, rtAll]
    cases he : encodeOne c t (Arg.val v) with
    | none =>
      rw [he] at hed
      cases hr : roundTrip c t v with
      | none => simp
      | some x => rw [hr] at hed; simp at hed
    | some j =>
      rw [he] at hed
      simp only [Option.bind_some] at hed
      cases hm : encodeAll c ts (vs.map Arg.val) with
      | none =>
        rw [hm] at ih
        simp only [Option.bind_none] at ih
        cases hr : roundTrip c t v <;> simp [← ih]
      | some js =>
        rw [hm] at ih
        simp only [Option.bind_some] at ih
        simp only [Option.map_some, Option.bind_some, decodeAll, hed]
        cases hr : roundTrip c t v with
        | none => simp
        | some x => simp [ih]

/-- The argument list of a proxy call: the context first when the signature declares one. -/
def mkArgs (s : Sig) (vs : List V) : List (Arg V) :=
  (if s.hasCtx then [Arg.ctx] else []) ++ vs.map Arg.val

/-- C01_args: for every signature without raw params, every codec and every argument list, the
    handler is invoked with — in declaration order — the context in the first slot iff declared, then
    exactly the JSON round trip of each argument into its declared type (through the custom
    encoder/decoder pair where one is registered), and nothing else; the call is refused before
    reaching the handler iff some round trip fails. -/
theorem C01_args (c : Codec V J) (s : Sig) (vs : List V) (hraw : s.raw = false) :
    (clientParams c s (mkArgs s vs)).bind (serverArgs c s)
      = (rtAll c s.ptypes vs).map ((if s.hasCtx then [Arg.ctx] else []) ++ ·) := by
  have hdrop : (mkArgs s vs).drop s.hasCtxN = vs.map Arg.val := by
    unfold mkArgs Sig.hasCtxN
    cases s.hasCtx <;> simp
  unfold clientParams serverArgs
  simp only [hraw, hdrop, Bool.false_eq_true, if_false]
  rw [← encodeAll_decodeAll]
  cases encodeAll c s.ptypes (vs.map Arg.val) <;> simp

/-- … and `rtAll` is the element-wise round trip: same length, same order, nothing else. -/
theorem rtAll_spec (c : Codec V J) :
    ∀ (ts : List String) (vs : List V) (out : List (Arg V)), rtAll c ts vs = some out →
      out.length = vs.length ∧ ts.length = vs.length ∧
      ∀ i (hi : i < vs.length) (ht : i < ts.length), ∃ v', roundTrip c ts[i] vs[i] = some v' ∧ out[i]? = some (Arg.val v')
  | [], [], out, h => by simp [rtAll] at h; subst h; simp
  | [], _ :: _, _, h => by simp [rtAll] at h
  | _ :: _, [], _, h => by simp [rtAll] at h
  | t :: ts, v :: vs, out, h => by
    simp only [rtAll] at h
    cases hr : roundTrip c t v with
    | none => simp [hr] at h
    | some v' =>
      simp only [hr] at h
      cases hrest : rtAll c ts vs with
      | none => simp [hrest] at h
      | some rest =>
        simp only [hrest, Option.map_some, Option.some.injEq] at h
        subst h
        obtain ⟨h1, h2, h3⟩ := rtAll_spec c ts vs rest hrest
        refine ⟨by simp [h1], by simp [h2], ?_⟩
        intro i hi ht
        cases i with
        | zero => exact ⟨v', by simpa using hr, by simp⟩
        | succ k =>
          have hk : k < vs.length := by simpa using hi
          have hk' : k < ts.length := by simpa using ht
          obtain ⟨w, hw1, hw2⟩ := h3 k hk hk'
          exact ⟨w, by simpa using hw1, by simpa using hw2⟩

/-- C01_raw: a raw-params method hands the handler exactly the caller's raw text (context first iff declared). -/
theorem C01_raw (c : Codec V J) (s : Sig) (j : String) (hraw : s.raw = true) :
    (clientParams c s ((if s.hasCtx then [Arg.ctx] else []) ++ [Arg.rawParams j])).bind (serverArgs c s)
      = some ((if s.hasCtx then [Arg.ctx] else []) ++ [Arg.rawParams j]) := by
  unfold clientParams serverArgs Sig.hasCtxN
  cases s.hasCtx <;> simp [hraw]

/-- C01_result (success): the caller's value is the JSON round trip of what the handler returned,
    and the error slot is nil. -/
theorem C01_result_ok (c : Codec V J) (s : Sig) (v v' : V)
    (hv : s.out.hasVal = true) (hrt : (c.marshal v).bind (c.unmarshal s.vty) = some v') :
    callerOut c s (.vals (some v) false)
      = some { val := some v', err := if s.out.hasErr then some false else none } := by
  unfold callerOut processFuncOut
  cases hs : s.out <;> simp_all [OutShape.hasVal, OutShape.hasErr]

/-- C01_result (failure): the handler failed ⇒ the value slot holds the zero value and the error slot a
    non-nil error — whatever value the handler returned alongside. -/
theorem C01_result_err (c : Codec V J) (s : Sig) (v : Option V) (he : s.out.hasErr = true) :
    callerOut c s (.vals v true)
      = some { val := if s.out.hasVal then some (c.zero s.vty) else none, err := some true } := by
  unfold callerOut processFuncOut
  cases hs : s.out <;> simp_all [OutShape.hasVal, OutShape.hasErr]

/-- C01_result (nothing to return): signatures without a value slot return just the error slot. -/
theorem C01_result_void (c : Codec V J) (s : Sig) (v : Option V) (hv : s.out.hasVal = false) :
    callerOut c s (.vals v false) = some { val := none, err := if s.out.hasErr then some false else none } := by
  unfold callerOut processFuncOut
  cases hs : s.out <;> simp_all [OutShape.hasVal, OutShape.hasErr]

/-- Non-vacuity: a 3-parameter context method returning (value, error), with an identity codec and a
    custom encoder/decoder pair on the middle type. -/
def idc : Codec Nat Nat := {
  marshal := some, unmarshal := fun _ j => some j,
  encoder := fun t => if t = "reader" then some (fun v => some (v + 100)) else none,
  decoder := fun t => if t = "reader" then some (fun j => some (j - 100)) else none,
  zero := fun _ => 0 }
def sig3 : Sig := { hasCtx := true, ptypes := ["int", "reader", "int"], raw := false, out := .valErr, vty := "int" }
example : (clientParams idc sig3 (mkArgs sig3 [1, 2, 3])).bind (serverArgs idc sig3)
    = some [.ctx, .val 1, .val 2, .val 3] := by decide
example : clientParams idc sig3 (mkArgs sig3 [1, 2, 3]) = some (.arr [1, 102, 3]) := by decide
example : callerOut idc sig3 (.vals (some 5) true) = some { val := some 0, err := some true } := by decide

end Jrpc.C01

import JrpcProofs.Lemmas.Forwarder
/-
  Forwarder — property theorems about the select-set bookkeeping of `handleOutChans`, shared by C07
  (concurrent subscriptions never receive each other's values) and C08 (nothing invented; the close
  notification reaches the subscription whose handler closed).  Model: `Jrpc.Forwarder`.
-/
namespace Jrpc.Forwarder

/-- Forwarder_value_tag: in every run (any number of subscriptions, any order of registrations, values and
    closes), a value received from handler channel `hp` goes out tagged with exactly the id that was
    announced to the client for `hp` at its registration. -/
theorem Forwarder_value_tag (es : List Ev) (s s' : St) (hp id : Nat)
    (hr : run? {} es = some s) (hs : step? s (.val hp id) = some s') :
    s.owner.lookup hp = some id := by
  have h := run_finv es {} s finv_init hr
  simp only [step?] at hs
  split at hs
  · rename_i k hpos
    split at hs
    · rename_i hid
      obtain ⟨hc, _⟩ := pos_spec s hp k hpos
      rw [← h.aligned k hp hc]; exact hid
    · simp at hs
  · simp at hs

/-- Forwarder_close_tag: the close notification carries the id of the channel that was closed. -/
theorem Forwarder_close_tag (es : List Ev) (s s' : St) (hp id : Nat)
    (hr : run? {} es = some s) (hs : step? s (.close hp id) = some s') :
    s.owner.lookup hp = some id := by
  have h := run_finv es {} s finv_init hr
  simp only [step?] at hs
  split at hs
  · rename_i k hpos
    split at hs
    · rename_i hid
      obtain ⟨hc, _⟩ := pos_spec s hp k hpos
      rw [← h.aligned k hp hc]; exact hid
    · simp at hs
  · simp at hs

/-- Forwarder_isolation: two handler channels announced under different ids never have their values
    mixed up — a value of `hp1` cannot go out under the id announced for `hp2`. -/
theorem Forwarder_isolation (es : List Ev) (s s' : St) (hp1 hp2 i1 i2 : Nat)
    (hr : run? {} es = some s) (h1 : s.owner.lookup hp1 = some i1) (h2 : s.owner.lookup hp2 = some i2)
    (hne : i1 ≠ i2) (hs : step? s (.val hp1 i2) = some s') : False := by
  have := Forwarder_value_tag es s s' hp1 i2 hr hs
  rw [h1] at this
  exact hne (by injection this)

/-- The slices never drift apart in length (an index into one is an index into the other). -/
theorem Forwarder_lengths (es : List Ev) (s : St) (hr : run? {} es = some s) :
    s.cases.length = s.ids.length :=
  (run_finv es {} s finv_init hr).len

/-- Non-vacuity: three subscriptions, the oldest closes (the last entry moves into its place), then the
    two younger ones send: accepted, and the slices read as the code's would. -/
example : (run? {} [.reg 101 1, .reg 102 2, .reg 103 3, .val 102 2, .close 101 1, .val 103 3, .val 102 2, .close 102 2, .val 103 3]).map
    (fun s => (s.cases, s.ids)) = some ([103], [3]) := by decide

/-- … and a forwarder that tags a value of the second subscription with the third one's id after that
    removal (what an order-preserving removal from `caseToID` next to a swap removal from `cases`
    produces) is not a behaviour of the model. -/
example : run? {} [.reg 101 1, .reg 102 2, .reg 103 3, .close 101 1, .val 102 3] = none := by decide

end Jrpc.Forwarder

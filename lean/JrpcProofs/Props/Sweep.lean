import Jrpc.Sweep
/-
  The ordering theorem behind "every channel obtained from the client is closed" (C18) and
  "subscriptions end on connection loss" (C08): with closeInFlight before closeChans, in every
  interleaving of the frame executor, the caller and the main loop's sweep, a caller that obtained the
  channel has its handler closed by the sweep.  With the opposite order this is false (witness below) —
  that was defect F16 in the exit path.
-/
namespace Jrpc.SweepProofs
open Jrpc.Sweep

structure Inv (s : St) : Prop where
  regLooked : s.registered = true → s.looked = true
  delReg : s.delivered = true → s.registered = true
  genuine : (s.mail = some true ∨ s.recvd = some true) → s.delivered = true
  order : s.chansSwept = true → s.swept = true
  infl : s.delivered = false → s.swept = false → s.inInflight = true
  quiet : s.delivered = false → s.swept = false → s.mail = none ∧ s.recvd = none
  occupied : s.swept = true → s.delivered = false → (s.mail = some false ∧ s.recvd = none) ∨ s.recvd = some false
  closed : s.chansSwept = true → s.handlerClosed = false → (s.mail = some false ∧ s.recvd = none) ∨ s.recvd = some false

theorem inv_init : Inv {} := by constructor <;> simp

theorem step_inv (s s' : St) (e : Ev) (h : Inv s) (hs : step? true s e = some s') : Inv s' := by
  obtain ⟨h1, h2, h3, h4, h5, h5q, h6, h7⟩ := h
  cases e <;> simp only [step?] at hs <;> (repeat' split at hs) <;>
    (first | (cases hs; done) | skip) <;> cases hs <;> constructor <;> simp_all <;> grind

theorem run_inv (es : List Ev) : ∀ (s s' : St), Inv s → run? true s es = some s' → Inv s' := by
  induction es with
  | nil => intro s s' h hr; simp [run?] at hr; subst hr; exact h
  | cons e es ih =>
    intro s s' h hr
    simp only [run?] at hr
    cases hs : step? true s e with
    | none => simp [hs] at hr
    | some s1 =>
      simp only [hs, Option.bind_some] at hr
      exact ih s1 s' (step_inv s s1 e h hs) hr

/-- Sweep_channel_closed: closeInFlight-then-closeChans, any interleaving: once both sweeps ran, a
    caller holding the channel (it received the genuine response) has had its handler closed. -/
theorem Sweep_channel_closed (es : List Ev) (s : St) (hr : run? true {} es = some s)
    (hc : s.chansSwept = true) (hg : s.recvd = some true) : s.handlerClosed = true := by
  have h := run_inv es {} s inv_init hr
  cases hh : s.handlerClosed with
  | true => rfl
  | false =>
    rcases h.closed hc hh with ⟨_, h2⟩ | h2
    · rw [hg] at h2; cases h2
    · rw [hg] at h2; cases h2

/-- … and nothing is delivered to the caller's channel handler after that: no registration can
    follow a completed sweep unless the lookup preceded it, in which case the caller got the connection
    error instead of the channel. -/
theorem Sweep_late_registration_harmless (es : List Ev) (s : St) (hr : run? true {} es = some s)
    (hc : s.chansSwept = true) (hreg : s.registered = true) (hn : s.handlerClosed = false) :
    s.recvd ≠ some true ∧ s.mail ≠ some true ∨ s.recvd = some false := by
  have h := run_inv es {} s inv_init hr
  rcases h.closed hc hn with ⟨h1, h2⟩ | h2
  · left; simp [h1, h2]
  · right; exact h2

/-- F16 witness: with closeChans before closeInFlight the caller can end up holding a channel whose
    handler was never closed. -/
def f16 : List Ev := [.lookup, .closeChans, .register, .deliver, .closeInFlight, .recv]
example : ((run? false {} f16).map (fun s => (s.chansSwept, s.swept, s.recvd, s.handlerClosed))) =
    some (true, true, some true, false) := by decide
/-- the same schedule is not a run of the corrected order -/
example : run? true {} f16 = none := by decide
/-- Non-vacuity of the theorem: the corrected order with the response winning the mailbox. -/
example : ((run? true {} [.lookup, .register, .deliver, .closeInFlight, .closeChans, .recv]).map
    (fun s => (s.chansSwept, s.recvd, s.handlerClosed))) = some (true, some true, true) := by decide

end Jrpc.SweepProofs

import JrpcProofs.Lemmas.Corr
/-
  C18 — Closing a client always completes and leaves nothing blocked.
  Property theorems only.  Model: `Jrpc.Corr` with the exit path (`exitBegin`, the sweep, `exited` =
  `close(exiting)`); the closer fires `exitBegin` whenever the main loop is in its select.

  Completion is proved in safety form (no step of the exit path waits on a caller or on the frame
  executor); the final "it runs" is scheduler fairness (PARTIAL).
-/
namespace Jrpc.C18
open Jrpc Jrpc.Corr

/-- C18_exit_never_waits: the exit path is `exitBegin; cifSend*; cifClear; exited`, and none of these
    can be disabled by a caller, the frame executor or the peer: the sweep's sends are non-blocking
    (C03_sweep_never_blocks), and the two other steps depend on the main loop's own pc only. -/
theorem C18_exit_never_waits (s : St) :
    (s.mainPc = .idle → (step? s .exitBegin).isSome) ∧
    (s.mainPc = .swept true → (step? s .exited).isSome) := by
  constructor <;> intro h <;> simp [step?, h]

/-- the sweep can always be completed: after every entry got its (non-blocking) send, clearing is enabled -/
theorem C18_clear_enabled (s : St) (x : Bool) (hp : s.mainPc = .sweeping x)
    (hall : ∀ p ∈ s.inflight, (s.att p.2).mail ≠ [] ∨ (s.att p.2).recvd ≠ none) :
    (step? s .cifClear).isSome := by
  have : s.inflight.all (fun p => !(s.att p.2).mail.isEmpty || (s.att p.2).recvd.isSome) = true := by
    apply List.all_eq_true.mpr
    intro p hp'
    rcases hall p hp' with h | h
    · cases hm : (s.att p.2).mail with
      | nil => exact absurd hm h
      | cons x xs => simp
    · cases hr : (s.att p.2).recvd with
      | none => exact absurd hr h
      | some m => simp
  simp [step?, hp, this]

/-- C18_after: once the client is closed (`exiting` closed) nothing is registered any more, nothing
    can be registered or taken any more, and every attempt that was taken has an answer in its mailbox
    or has received one (so its caller returns), while every attempt still waiting to be taken can
    return the "exiting" error. -/
theorem C18_after (es : List Ev) (s : St) (hr : run? {} es = some s) (hx : s.exitingClosed = true) :
    s.inflight = [] ∧
    (∀ a, step? s (.take a) = none) ∧ (∀ a, step? s (.register a) = none) ∧
    (∀ a, (s.att a).taken = true → (s.att a).id ≠ .nil →
        (s.att a).mail ≠ [] ∨ (s.att a).recvd ≠ none ∨
        s.fePending = some ((s.att a).id, a) ∨ s.feSending = some ((s.att a).id, a)) ∧
    (∀ a, (s.att a).enq = true → (s.att a).taken = false → (s.att a).exitErr = false →
        (step? s (.exitErr a)).isSome) := by
  obtain ⟨h1, h2⟩ := reach_inv es s hr
  have hpc := h1.exited hx
  have hin := h1.exitedPc hpc
  refine ⟨hin, ?_, ?_, ?_, ?_⟩
  · intro a; simp [step?, hpc]
  · intro a; simp [step?, hpc]
  · intro a ht hid
    by_cases hm : (s.att a).mail = []
    · by_cases hrv : (s.att a).recvd = none
      · rcases h2.owner a ht hid hm hrv with o | o | o | o
        · rw [hpc] at o; cases o
        · rw [hin] at o; simp at o
        · exact Or.inr (Or.inr (Or.inl o))
        · exact Or.inr (Or.inr (Or.inr o))
      · exact Or.inr (Or.inl hrv)
    · exact Or.inl hm
  · intro a he ht hx'
    simp [step?, he, ht, hx', hx]

/-- … and an attempt the frame executor still holds gets its answer without any help from the (gone)
    main loop: the executor's send is enabled as soon as the mailbox is empty. -/
theorem C18_executor_finishes (s : St) (id : NId) (a : Nat) (hf : s.feSending = some (id, a))
    (hm : (s.att a).mail = []) : (step? s .deliverDone).isSome := by
  simp [step?, hf, hm]

/-- C18_noredial: a client whose redial goroutine saw the cancelled context (`abort`) never swaps a
    connection in, and after the exit nothing re-enables it. -/
theorem C18_noredial (s : St) (h : s.redialing = false) : step? s .swap = none := by
  simp [step?, h]

/-- Non-vacuity: close while one call awaits its response and one is still queued. -/
def demo : List Ev := [.enq 1 (.num "1"), .take 1, .errCheck 1 false, .register 1, .wrote 1, .enq 2 (.num "2"), .exitBegin,
  .cifSend (.num "1") 1 true, .cifClear, .exited, .exitErr 2, .recv 1 true]
example : (run? {} demo).map (fun s => (s.exitingClosed, (s.att 1).recvd, (s.att 2).exitErr, s.inflight)) =
    some (true, some .connErr, true, []) := by decide

end Jrpc.C18

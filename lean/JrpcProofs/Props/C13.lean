import Jrpc.Frames
set_option linter.unusedSimpArgs false
/-
  C13 — A panicking handler fails only its own call.
  Property theorems only.  Model: `Jrpc.Dispatch` (`handle` maps a panicking body to an error
  response — that is `doCall`'s deferred `recover`) and `Jrpc.Frames` (what a call frame may touch).
-/
namespace Jrpc.C13
open Jrpc

/-- C13_confined: a handler that panics after passing the gates yields an error response for its own
    id (code 0, "fatal error calling … panic in rpc method …") — `handle` is total, there is no crash. -/
theorem C13_confined (h : Handler) (chanOK : Bool) (req : Req) (m : Method)
    (hm : h.resolve req.method = some m) (hch : (m.isChan && !chanOK) = false)
    (hgate : m.raw = true ∨ (req.params.count? = some m.nParams ∧ paramsDecode m.ptypes req.params.elems = true))
    (hp : m.behav = .panics) :
    h.handle chanOK req = { resp := some ⟨req.id, .error 0⟩, invoked := some m.tag } := by
  unfold Handler.handle
  simp only [hm, hch]
  rcases hgate with hraw | ⟨hc, hd⟩
  · simp [hraw, hp]
  · by_cases hraw : m.raw = true
    · simp [hraw, hp]
    · simp [hraw, hc, hd, hp]

/-- C13_frame: executing a call frame — whatever its handler will do, panicking included — changes
    nothing of the endpoint but the list of started calls and the registration of its own id:
    responses awaited, channels, deliveries and cancellations of every other call are untouched. -/
theorem C13_frame (h : Handler) (s s' : ExecState) (f : FrameIn)
    (hcall : f.method ≠ "" ∧ f.method ≠ "xrpc.cancel" ∧ f.method ≠ "xrpc.ch.val" ∧ f.method ≠ "xrpc.ch.close")
    (he : execFrame h s f = .ok s') :
    s'.inflight = s.inflight ∧ s'.mailbox = s.mailbox ∧ s'.chanHandlers = s.chanHandlers ∧
    s'.delivered = s.delivered ∧ s'.closedChans = s.closedChans ∧ s'.cancelled = s.cancelled ∧
    (∃ l, s'.spawned = s.spawned ++ l ∧ l.length ≤ 1) ∧
    (∀ id ∈ s.handling, id ∈ s'.handling) := by
  obtain ⟨h1, h2, h3, h4⟩ := hcall
  unfold execFrame at he
  split at he
  · cases he; exact ⟨rfl, rfl, rfl, rfl, rfl, rfl, ⟨[], by simp, by simp⟩, fun _ h => h⟩
  · cases hn : normalizeID f.id with
    | none => simp [hn] at he; cases he; exact ⟨rfl, rfl, rfl, rfl, rfl, rfl, ⟨[], by simp, by simp⟩, fun _ h => h⟩
    | some id =>
      simp only [hn, h1, h2, h3, h4, if_false] at he
      split at he
      · split at he
        · cases he; exact ⟨rfl, rfl, rfl, rfl, rfl, rfl, ⟨[], by simp, by simp⟩, fun _ h => h⟩
        · cases he; exact ⟨rfl, rfl, rfl, rfl, rfl, rfl, ⟨[], by simp, by simp⟩, fun _ h => h⟩
      · cases he
        refine ⟨rfl, rfl, rfl, rfl, rfl, rfl, ⟨[_], rfl, by simp⟩, ?_⟩
        intro i hi
        simp only
        split
        · exact hi
        · exact List.mem_append_left _ hi

/-- The response of the panicking call is the only thing its caller gets, and it is an error:
    together with C13_frame this is "every other call behaves as if the panic had not happened". -/
theorem C13_panic_response_is_error (h : Handler) (chanOK : Bool) (req : Req) (m : Method)
    (hm : h.resolve req.method = some m) (hp : m.behav = .panics) (r : Resp)
    (hr : (h.handle chanOK req).resp = some r) : ∃ code, r.body = .error code := by
  unfold Handler.handle at hr
  simp only [hm] at hr
  repeat' split at hr
  all_goals first | (simp at hr; done) | (simp at hr; exact ⟨_, by rw [← hr]⟩) | simp_all

/-- Non-vacuity. -/
def boom : Method := { tag := "V.Panic", ptypes := ["int"], hasCtx := true, raw := false, out := .valErr,
                       isChan := false, behav := .panics }
def hnd : Handler := { methods := [("V.Panic".toList, boom)], aliases := [] }
example : hnd.handle true ⟨.num "1", "V.Panic".toList, .arr [["int"]]⟩
    = { resp := some ⟨.num "1", .error 0⟩, invoked := some "V.Panic" } := by decide

end Jrpc.C13

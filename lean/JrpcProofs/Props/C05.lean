import Jrpc.Backoff
import JrpcProofs.Lemmas.Redial
import JrpcProofs.Lemmas.Corr
/-
  C05 — Reconnecting clients heal themselves; retry-tagged calls ride out outages.

  Property theorems only.
    * delay arithmetic (`Jrpc.Backoff`): every delay handed to `time.Sleep` lies in [minDelay, maxDelay];
    * the redial goroutine (`Jrpc.Redial`, timed): every dial is at least `minDelay` after the start of
      its redial goroutine or after the previous dial; at most `T / minDelay` dials in any run of
      duration `T` (never a busy loop); a client without a dial factory never dials; after a
      successful redial the goroutine is back in the state of a fresh connection and can heal again;
    * the connection bookkeeping (`Jrpc.Corr`): while the redial runs nothing is registered, requests
      fail fast; after the swap the error flag is clear and the next request is registered and written;
    * the method-level retry loop (`Jrpc.Redial.retryLoop`): a retry-tagged call never returns the
      temporary connection error, re-sends only after one, and returns the first other outcome; an
      untagged call returns its first outcome (the connection error surfaces, typed when the client
      maps errors: `C11.connection_error_typed`).
  PARTIAL: "eventually returns a genuine result" is `C05_retry_returns` — the loop returns as soon as one
  attempt is answered — plus enabledness of the next attempt on a healed connection; that an outage
  ends and the scheduler runs the caller are assumptions.
-/
namespace Jrpc.C05
open Jrpc

theorem pow_two_le_three (a : Nat) : 2 ^ a ≤ 3 ^ a := Nat.pow_le_pow_left (by omega) a

/-- C05_backoff: for every attempt and every jitter in [0,1), `minDelay ≤ next ≤ maxDelay`
    whenever `minDelay ≤ maxDelay`. -/
theorem C05_backoff (b : Backoff) (attempt : Option Nat) (jn jd : Nat)
    (hle : b.minDelay ≤ b.maxDelay) (hj : jn < jd) :
    b.minDelay ≤ b.next attempt jn jd ∧ b.next attempt jn jd ≤ b.maxDelay := by
  cases attempt with
  | none => exact ⟨Nat.le_refl _, hle⟩
  | some a =>
    have hjd : 0 < jd := by omega
    have hden : 0 < Backoff.den a jd := Nat.mul_pos (Nat.pow_pos (by omega)) hjd
    simp only [Backoff.next]
    split
    · exact ⟨hle, Nat.le_refl _⟩
    · rename_i hgt
      constructor
      · -- min * den ≤ num
        apply (Nat.le_div_iff_mul_le hden).mpr
        unfold Backoff.num Backoff.den
        have h1 : b.minDelay * (2 ^ a * jd) ≤ b.minDelay * 3 ^ a * jd := by
          rw [Nat.mul_assoc]
          exact Nat.mul_le_mul_left _ (Nat.mul_le_mul_right _ (pow_two_le_three a))
        omega
      · apply Nat.div_le_of_le_mul
        rw [Nat.mul_comm]
        omega

/-- C05_spacing: hence no delay handed to `time.Sleep` is ever below `minDelay` — in particular never
    zero or negative, so the redial loop cannot spin. -/
theorem C05_spacing (b : Backoff) (attempt : Option Nat) (jn jd : Nat)
    (hmin : 0 < b.minDelay) (hle : b.minDelay ≤ b.maxDelay) (hj : jn < jd) :
    0 < b.next attempt jn jd :=
  Nat.lt_of_lt_of_le hmin (C05_backoff b attempt jn jd hle hj).1

/-- The interval the differential check uses contains every possible result. -/
theorem C05_interval (b : Backoff) (a jn jd : Nat) (hj : jn < jd) :
    b.lo a ≤ b.next (some a) jn jd ∧ b.next (some a) jn jd ≤ b.hi a := by
  have hjd : 0 < jd := by omega
  have h2 : 0 < 2 ^ a := Nat.pow_pos (by omega)
  have hden : 0 < Backoff.den a jd := Nat.mul_pos h2 hjd
  simp only [Backoff.next, Backoff.lo, Backoff.hi]
  split
  · rename_i hgt
    refine ⟨Nat.min_le_left _ _, ?_⟩
    -- num > max * den and num ≤ (min*3^a + min*2^a) * jd ⇒ max ≤ upper
    apply Nat.le_min.mpr ⟨Nat.le_refl _, ?_⟩
    apply (Nat.le_div_iff_mul_le h2).mpr
    unfold Backoff.num Backoff.den at hgt
    have hjn : b.minDelay * jn * 2 ^ a ≤ b.minDelay * jd * 2 ^ a :=
      Nat.mul_le_mul_right _ (Nat.mul_le_mul_left _ (Nat.le_of_lt hj))
    have : b.maxDelay * 2 ^ a * jd < (b.minDelay * 3 ^ a + b.minDelay * 2 ^ a) * jd := by
      have e1 : b.maxDelay * (2 ^ a * jd) = b.maxDelay * 2 ^ a * jd := by rw [Nat.mul_assoc]
      have e2 : (b.minDelay * 3 ^ a + b.minDelay * 2 ^ a) * jd
          = b.minDelay * 3 ^ a * jd + b.minDelay * jd * 2 ^ a := by
        rw [Nat.add_mul, Nat.mul_right_comm b.minDelay (2 ^ a) jd]
      omega
    exact Nat.le_of_lt (Nat.lt_of_mul_lt_mul_right this)
  · rename_i hgt
    have hle : b.num a jn jd ≤ b.maxDelay * Backoff.den a jd := Nat.le_of_not_gt hgt
    constructor
    · apply Nat.le_trans (Nat.min_le_right _ _)
      apply (Nat.le_div_iff_mul_le hden).mpr
      unfold Backoff.num Backoff.den
      have : b.minDelay * 3 ^ a / 2 ^ a * 2 ^ a ≤ b.minDelay * 3 ^ a := Nat.div_mul_le_self _ _
      have : b.minDelay * 3 ^ a / 2 ^ a * (2 ^ a * jd) ≤ b.minDelay * 3 ^ a * jd := by
        rw [← Nat.mul_assoc]; exact Nat.mul_le_mul_right _ this
      omega
    · apply Nat.le_min.mpr
      constructor
      · apply Nat.div_le_of_le_mul; rw [Nat.mul_comm]; exact hle
      · -- num / (2^a * jd) ≤ (min*3^a + min*2^a) / 2^a
        apply (Nat.le_div_iff_mul_le h2).mpr
        have hq : b.num a jn jd / Backoff.den a jd * Backoff.den a jd ≤ b.num a jn jd :=
          Nat.div_mul_le_self _ _
        unfold Backoff.num Backoff.den at hq ⊢
        have hjn : b.minDelay * jn * 2 ^ a ≤ b.minDelay * jd * 2 ^ a :=
          Nat.mul_le_mul_right _ (Nat.mul_le_mul_left _ (Nat.le_of_lt hj))
        have e2 : (b.minDelay * 3 ^ a + b.minDelay * 2 ^ a) * jd
            = b.minDelay * 3 ^ a * jd + b.minDelay * jd * 2 ^ a := by
          rw [Nat.add_mul, Nat.mul_right_comm b.minDelay (2 ^ a) jd]
        have : (b.minDelay * 3 ^ a * jd + b.minDelay * jn * 2 ^ a) / (2 ^ a * jd) * 2 ^ a * jd
            ≤ (b.minDelay * 3 ^ a + b.minDelay * 2 ^ a) * jd := by
          rw [Nat.mul_assoc]; omega
        exact Nat.le_of_mul_le_mul_right this hjd

/-- Non-vacuity, at the attempt where the unrepaired conversion overflowed (defaults: 100 ms / 5 s). -/
example : ({ minDelay := 100000000, maxDelay := 5000000000 } : Backoff).next (some 63) 1 2 = 5000000000 := by
  decide
example : ({ minDelay := 100000000, maxDelay := 5000000000 } : Backoff).next (some 2) 1 2 = 275000000 := by
  decide

/-! ### The redial goroutine -/
open Jrpc.Redial in
/-- C05_dial_spaced: in every run of the redial model, every dial happens at least `minDelay` after the
    later of (the start of its redial goroutine, the previous dial) — the chain also says that marks
    are ordered, so consecutive dials are `minDelay` apart. -/
theorem C05_dial_spaced (c : Redial.Cfg) (hlo : ∀ n, c.minDelay ≤ c.lo n) (es : List Redial.Ev) (s : Redial.St)
    (hr : Redial.run? c {} es = some s) :
    Redial.Chained c.minDelay s.dials ∧ ∀ p ∈ s.dials, p.1 + c.minDelay ≤ p.2 := by
  have h := Redial.run_rinv c hlo es {} s (Redial.rinv_init c) hr
  refine ⟨h.chained, ?_⟩
  have : ∀ (l : List (Nat × Nat)), Redial.Chained c.minDelay l → ∀ p ∈ l, p.1 + c.minDelay ≤ p.2 := by
    intro l
    induction l with
    | nil => intro _ p hp; simp at hp
    | cons a rest ih =>
      intro hc p hp
      cases rest with
      | nil =>
        simp at hp; subst hp; simpa [Redial.Chained] using hc
      | cons b rest' =>
        obtain ⟨h1, _, h3⟩ := hc
        rcases List.mem_cons.mp hp with rfl | hp'
        · exact h1
        · exact ih h3 p hp'
  exact this s.dials h.chained

/-- C05_no_busy_loop: a run that has lasted `now` time units contains at most `now / minDelay` dials. -/
theorem C05_no_busy_loop (c : Redial.Cfg) (hlo : ∀ n, c.minDelay ≤ c.lo n) (es : List Redial.Ev) (s : Redial.St)
    (hr : Redial.run? c {} es = some s) : s.dials.length * c.minDelay ≤ s.now := by
  have h := Redial.run_rinv c hlo es {} s (Redial.rinv_init c) hr
  exact Nat.le_trans h.count h.markNow

/-- C05_noredial: a client without a dial factory (`WithNoReconnect`) never dials; a loss ends it. -/
theorem C05_noredial (c : Redial.Cfg) (hlo : ∀ n, c.minDelay ≤ c.lo n) (es : List Redial.Ev) (s : Redial.St)
    (hc : c.reconnect = false) (hr : Redial.run? c {} es = some s) :
    s.dials = [] ∧ (s.pc = .up ∨ s.pc = .exited) := by
  have h := Redial.run_rinv c hlo es {} s (Redial.rinv_init c) hr
  exact ⟨(h.noFact hc).2, (h.noFact hc).1⟩

/-- C05_backoff_grows: attempt `n` of a redial cycle is dialled only after a sleep of at least
    `lo n` — the backoff's lower bound for that attempt, which grows by the factor 1.5 per failed dial up to
    the configured maximum (`Backoff.lo`) — and the attempt counter advances by exactly one per failed dial:
    the sleep that follows the failed dial `m` is announced as attempt `m + 1`. -/
theorem C05_backoff_grows (c : Redial.Cfg) (s s' : Redial.St) :
    (∀ n t, Redial.step? c s (.dial n t) = some s' → ∃ since, s.pc = .sleeping n since ∧ since + c.lo n ≤ t) ∧
    (∀ n t m, s.pc = .dialing m → Redial.step? c s (.sleep n t) = some s' → n = m + 1) := by
  constructor
  · intro n t hs
    unfold Redial.step? at hs
    split at hs
    · simp at hs
    · simp only at hs
      split at hs
      · rename_i m since hpc
        split at hs
        · rename_i hc
          simp only [Bool.and_eq_true, decide_eq_true_eq] at hc
          refine ⟨since, ?_, hc.2⟩
          rw [hc.1]; exact hpc
        · simp at hs
      · simp at hs
  · intro n t m hpc hs
    unfold Redial.step? at hs
    split at hs
    · simp at hs
    · simp only [hpc] at hs
      split at hs
      · assumption
      · simp at hs

/-- For a client configured with backoff `b` (min ≤ max) the hypothesis of the theorems above holds. -/
theorem C05_cfg_ok (r : Bool) (b : Backoff) (hle : b.minDelay ≤ b.maxDelay) :
    ∀ n, (Redial.Cfg.ofBackoff r b).minDelay ≤ (Redial.Cfg.ofBackoff r b).lo n :=
  Redial.ofBackoff_lo r b hle

/-- C05_heal: a successful redial puts the goroutine back into the state of a fresh connection (`up`),
    and from there a later loss starts a new redial cycle: nothing has to be recreated. -/
theorem C05_heal (c : Redial.Cfg) (s s' : Redial.St) (t : Nat)
    (hs : Redial.step? c s (.swap t) = some s') :
    s'.pc = .up ∧ s'.dials = s.dials ∧ s'.gone = s.gone := by
  unfold Redial.step? at hs
  split at hs
  · simp at hs
  · simp only at hs
    split at hs
    · injection hs with hs; subst hs; simp
    · simp at hs

theorem C05_heals_again (c : Redial.Cfg) (s : Redial.St) (t : Nat)
    (hup : s.pc = .up) (hg : s.gone = false) (hc : c.reconnect = true) (ht : s.now ≤ t) :
    ∃ s', Redial.step? c s (.loss t) = some s' ∧ s'.pc = .lost := by
  refine ⟨{ s with now := t, pc := .lost }, ?_, rfl⟩
  unfold Redial.step?
  have : ¬ t < s.now := by omega
  simp [this, hup, hg, hc, Redial.Ev.time]

/-- Non-vacuity: loss, two failed dials 100 apart, success, a second loss. -/
example : (Redial.run? (Redial.Cfg.ofBackoff true ⟨100, 400⟩) {} [.loss 5, .spawn 6, .sleep 0 7, .dial 0 110, .sleep 1 111, .dial 1 300,
            .swap 301, .loss 400, .spawn 401, .sleep 0 402, .dial 0 502]).map (·.dials)
          = some [(401, 502), (110, 300), (6, 110)] := by decide
/-- … and a dial that comes too early, or without its sleep, is not a behaviour of the model. -/
example : Redial.run? (Redial.Cfg.ofBackoff true ⟨100, 400⟩) {} [.loss 5, .spawn 6, .sleep 0 7, .dial 0 50] = none := by decide
example : Redial.run? (Redial.Cfg.ofBackoff true ⟨100, 400⟩) {} [.loss 5, .spawn 6, .dial 0 500] = none := by decide
/-- … nor is a second attempt that waited only the minimum (the backoff must have grown to 150), nor one
    announced under the same attempt number again. -/
example : Redial.run? (Redial.Cfg.ofBackoff true ⟨100, 400⟩) {} [.loss 5, .spawn 6, .sleep 0 7, .dial 0 110, .sleep 1 111, .dial 1 230] = none := by decide
example : Redial.run? (Redial.Cfg.ofBackoff true ⟨100, 400⟩) {} [.loss 5, .spawn 6, .sleep 0 7, .dial 0 110, .sleep 0 111] = none := by decide
example : Redial.run? (Redial.Cfg.ofBackoff false ⟨100, 400⟩) {} [.loss 5] = none := by decide

/-! ### The connection bookkeeping around a redial (`Jrpc.Corr`) -/

/-- One step preserves "the redial goroutine is running → `inflight` is empty". -/
private theorem step_redial_empty (s s' : Corr.St) (e : Corr.Ev) (g : Corr.Inv1 s)
    (h0 : s.redialing = true → s.inflight = []) (hs : Corr.step? s e = some s') :
    s'.redialing = true → s'.inflight = [] := by
  have hswept := g.swept
  have hdec := g.decidedOk
  cases e <;> simp only [Corr.step?] at hs
  all_goals repeat' split at hs
  all_goals first | (cases hs; done) | skip
  all_goals cases hs
  all_goals (try simp only [Bool.or_eq_true, Bool.and_eq_true, Bool.not_eq_true', bne_iff_ne, beq_iff_eq, ne_eq,
    not_or, not_and, Bool.not_eq_true, decide_eq_true_eq, List.isEmpty_iff, Option.isSome_iff_ne_none] at *)
  all_goals (try simp only [Corr.put_misc, Corr.erase_misc, Corr.setAtt_inflight, Corr.setAtt_redial] at *)
  all_goals (try grind [Corr.St.setAtt, Corr.St.putInflight, Corr.St.eraseInflight, Corr.erase_nil])

/-- While the redial goroutine runs, nothing is registered in `inflight`: requests are failed fast
    (`Inv1.window`: the error flag is set), never written to a dead socket. -/
theorem C05_outage_registers_nothing (es : List Corr.Ev) (s : Corr.St) (hr : Corr.run? {} es = some s) :
    s.redialing = true → s.inflight = [] ∧ s.incomingErr = true := by
  suffices h : ∀ (es : List Corr.Ev) (s0 s : Corr.St), Corr.Inv1 s0 → (s0.redialing = true → s0.inflight = []) →
      Corr.run? s0 es = some s → (Corr.Inv1 s ∧ (s.redialing = true → s.inflight = [])) by
    intro hred
    have := h es {} s Corr.inv1_init (by simp) hr
    exact ⟨this.2 hred, this.1.window (Or.inl hred)⟩
  intro es
  induction es with
  | nil => intro s0 s g h0 hr; simp [Corr.run?] at hr; subst hr; exact ⟨g, h0⟩
  | cons e es ih =>
    intro s0 s g h0 hr
    simp only [Corr.run?] at hr
    cases hst : Corr.step? s0 e with
    | none => simp [hst] at hr
    | some s1 =>
      simp [hst] at hr
      exact ih s1 s (Corr.step_inv1 s0 s1 e g hst) (step_redial_empty s0 s1 e g h0 hst) hr

/-- C05_heal (bookkeeping): the swap clears the error flag and ends the redial; `inflight` is empty at
    that instant, so the healed connection starts exactly like a fresh one. -/
theorem C05_heal_clean (es : List Corr.Ev) (s s' : Corr.St) (hr : Corr.run? {} es = some s)
    (hs : Corr.step? s .swap = some s') :
    s'.incomingErr = false ∧ s'.redialing = false ∧ s'.inflight = [] ∧ s'.mainPc = s.mainPc := by
  simp only [Corr.step?] at hs
  split at hs
  · rename_i hred
    cases hs
    exact ⟨rfl, rfl, (C05_outage_registers_nothing es s hr hred).1, rfl⟩
  · simp at hs

/-- … and on it the next id-bearing request is not failed fast: the fail-fast decision is disabled while
    the flag is clear, the registering one is enabled. -/
theorem C05_healed_accepts (s : Corr.St) (a : Nat) (hpc : s.mainPc = .handling a)
    (hid : (s.att a).id ≠ .nil) (hd : s.decided = none) (herr : s.incomingErr = false) :
    Corr.step? s (.errCheck a true) = none ∧ (Corr.step? s (.errCheck a false)).isSome = true := by
  simp [Corr.step?, hpc, hd, herr, hid]

/-! ### The method-level retry loop -/

/-- C05_retry_safe: a retry-tagged call never returns the temporary connection error. -/
theorem C05_retry_safe (outs : List Redial.Attempt) (a : Redial.Attempt) (n : Nat)
    (h : Redial.retryLoop true outs = some (a, n)) : a ≠ .connErr := by
  induction outs generalizing n with
  | nil => simp [Redial.retryLoop] at h
  | cons o rest ih =>
    cases o with
    | connErr =>
      simp only [Redial.retryLoop, if_true] at h
      cases hr : Redial.retryLoop true rest with
      | none => simp [hr] at h
      | some p =>
        simp [hr] at h
        exact ih p.2 (by rw [hr]; congr 1; ext <;> simp [h.1])
    | answer r => simp [Redial.retryLoop] at h; rw [← h.1]; simp
    | sendErr => simp [Redial.retryLoop] at h; rw [← h.1]; simp

/-- C05_retry_resends_only_after_connErr: the `n` attempts a retry-tagged call made are `n-1` temporary
    connection errors followed by the outcome it returned. -/
theorem C05_retry_shape (outs : List Redial.Attempt) (a : Redial.Attempt) (n : Nat)
    (h : Redial.retryLoop true outs = some (a, n)) :
    ∃ rest, outs = List.replicate (n - 1) .connErr ++ a :: rest ∧ 0 < n := by
  induction outs generalizing n with
  | nil => simp [Redial.retryLoop] at h
  | cons o rest ih =>
    cases o with
    | connErr =>
      simp only [Redial.retryLoop, if_true] at h
      cases hr : Redial.retryLoop true rest with
      | none => simp [hr] at h
      | some p =>
        simp [hr] at h
        obtain ⟨rest', hrest, hpos⟩ := ih p.2 (by rw [hr, ← h.1])
        refine ⟨rest', ?_, by omega⟩
        have hn : n - 1 = (p.2 - 1) + 1 := by omega
        rw [hn, List.replicate_succ, List.cons_append, hrest, ← h.1]
    | answer r =>
      simp [Redial.retryLoop] at h
      exact ⟨rest, by simp [← h.1, ← h.2], by omega⟩
    | sendErr =>
      simp [Redial.retryLoop] at h
      exact ⟨rest, by simp [← h.1, ← h.2], by omega⟩

/-- C05_retry_returns: as soon as one attempt is answered (the outage ended) the retry loop returns. -/
theorem C05_retry_returns (outs : List Redial.Attempt) (h : ∃ o ∈ outs, o ≠ .connErr) :
    (Redial.retryLoop true outs).isSome = true := by
  induction outs with
  | nil => simp at h
  | cons o rest ih =>
    cases o with
    | connErr =>
      obtain ⟨x, hx, hne⟩ := h
      have hx' : x ∈ rest := by
        rcases List.mem_cons.mp hx with rfl | h'
        · exact absurd rfl hne
        · exact h'
      have := ih ⟨x, hx', hne⟩
      simp only [Redial.retryLoop, if_true, Option.isSome_map]
      exact this
    | answer r => simp [Redial.retryLoop]
    | sendErr => simp [Redial.retryLoop]

/-- C05_untagged: without the retry tag the first outcome is returned after exactly one attempt — a
    temporary connection error surfaces (typed as `*RPCConnectionError` when the client maps errors:
    `C11.connection_error_typed`). -/
theorem C05_untagged (o : Redial.Attempt) (rest : List Redial.Attempt) :
    Redial.retryLoop false (o :: rest) = some (o, 1) := by
  cases o <;> simp [Redial.retryLoop]

/-- Non-vacuity: two outages, then an answer. -/
example : Redial.retryLoop true [.connErr, .connErr, .answer 7, .connErr] = some (.answer 7, 3) := by decide
example : Redial.retryLoop false [.connErr, .connErr, .answer 7] = some (.connErr, 1) := by decide

end Jrpc.C05

import Jrpc.Backoff
/-
  C05 — Reconnecting clients heal themselves; retry-tagged calls ride out outages.
  This file: the backoff clause ("redial attempts are spaced by the configured backoff, never a
  busy loop").  Model: `Jrpc.Backoff`.
-/
namespace Jrpc.C05
open Jrpc

theorem pow_two_le_three (a : Nat) : 2 ^ a ≤ 3 ^ a := Nat.pow_le_pow_left (by omega) a

/-- C05_backoff: for every attempt and every jitter in [0,1), `minDelay ≤ next ≤ maxDelay`
    whenever `minDelay ≤ maxDelay`. -/
theorem C05_backoff (b : Backoff) (attempt : Option Nat) (jn jd : Nat)
    (hle : b.minDelay ≤ b.maxDelay) (hj : jn < jd) :
    b.minDelay ≤ b.next attempt jn jd ∧ b.next attempt jn jd ≤ b.maxDelay := by
  cases attempt with
  | none => exact ⟨Nat.le_refl _, hle⟩
  | some a =>
    have hjd : 0 < jd := by omega
    have hden : 0 < Backoff.den a jd := Nat.mul_pos (Nat.pow_pos (by omega)) hjd
    simp only [Backoff.next]
    split
    · exact ⟨hle, Nat.le_refl _⟩
    · rename_i hgt
      constructor
      · -- min * den ≤ num
        apply (Nat.le_div_iff_mul_le hden).mpr
        unfold Backoff.num Backoff.den
        have h1 : b.minDelay * (2 ^ a * jd) ≤ b.minDelay * 3 ^ a * jd := by
          rw [Nat.mul_assoc]
          exact Nat.mul_le_mul_left _ (Nat.mul_le_mul_right _ (pow_two_le_three a))
        omega
      · apply Nat.div_le_of_le_mul
        rw [Nat.mul_comm]
        omega

/-- C05_spacing: hence no delay handed to `time.Sleep` is ever below `minDelay` — in particular never
    zero or negative, so the redial loop cannot spin. -/
theorem C05_spacing (b : Backoff) (attempt : Option Nat) (jn jd : Nat)
    (hmin : 0 < b.minDelay) (hle : b.minDelay ≤ b.maxDelay) (hj : jn < jd) :
    0 < b.next attempt jn jd :=
  Nat.lt_of_lt_of_le hmin (C05_backoff b attempt jn jd hle hj).1

/-- The interval the differential check uses contains every possible result. -/
theorem C05_interval (b : Backoff) (a jn jd : Nat) (hj : jn < jd) :
    b.lo a ≤ b.next (some a) jn jd ∧ b.next (some a) jn jd ≤ b.hi a := by
  have hjd : 0 < jd := by omega
  have h2 : 0 < 2 ^ a := Nat.pow_pos (by omega)
  have hden : 0 < Backoff.den a jd := Nat.mul_pos h2 hjd
  simp only [Backoff.next, Backoff.lo, Backoff.hi]
  split
  · rename_i hgt
    refine ⟨Nat.min_le_left _ _, ?_⟩
    -- num > max * den and num ≤ (min*3^a + min*2^a) * jd ⇒ max ≤ upper
    apply Nat.le_min.mpr ⟨Nat.le_refl _, ?_⟩
    apply (Nat.le_div_iff_mul_le h2).mpr
    unfold Backoff.num Backoff.den at hgt
    have hjn : b.minDelay * jn * 2 ^ a ≤ b.minDelay * jd * 2 ^ a :=
      Nat.mul_le_mul_right _ (Nat.mul_le_mul_left _ (Nat.le_of_lt hj))
    have : b.maxDelay * 2 ^ a * jd < (b.minDelay * 3 ^ a + b.minDelay * 2 ^ a) * jd := by
      have e1 : b.maxDelay * (2 ^ a * jd) = b.maxDelay * 2 ^ a * jd := by rw [Nat.mul_assoc]
      have e2 : (b.minDelay * 3 ^ a + b.minDelay * 2 ^ a) * jd
          = b.minDelay * 3 ^ a * jd + b.minDelay * jd * 2 ^ a := by
        rw [Nat.add_mul, Nat.mul_right_comm b.minDelay (2 ^ a) jd]
      omega
    exact Nat.le_of_lt (Nat.lt_of_mul_lt_mul_right this)
  · rename_i hgt
    have hle : b.num a jn jd ≤ b.maxDelay * Backoff.den a jd := Nat.le_of_not_gt hgt
    constructor
    · apply Nat.le_trans (Nat.min_le_right _ _)
      apply (Nat.le_div_iff_mul_le hden).mpr
      unfold Backoff.num Backoff.den
      have : b.minDelay * 3 ^ a / 2 ^ a * 2 ^ a ≤ b.minDelay * 3 ^ a := Nat.div_mul_le_self _ _
      have : b.minDelay * 3 ^ a / 2 ^ a * (2 ^ a * jd) ≤ b.minDelay * 3 ^ a * jd := by
        rw [← Nat.mul_assoc]; exact Nat.mul_le_mul_right _ this
      omega
    · apply Nat.le_min.mpr
      constructor
      · apply Nat.div_le_of_le_mul; rw [Nat.mul_comm]; exact hle
      · -- num / (2^a * jd) ≤ (min*3^a + min*2^a) / 2^a
        apply (Nat.le_div_iff_mul_le h2).mpr
        have hq : b.num a jn jd / Backoff.den a jd * Backoff.den a jd ≤ b.num a jn jd :=
          Nat.div_mul_le_self _ _
        unfold Backoff.num Backoff.den at hq ⊢
        have hjn : b.minDelay * jn * 2 ^ a ≤ b.minDelay * jd * 2 ^ a :=
          Nat.mul_le_mul_right _ (Nat.mul_le_mul_left _ (Nat.le_of_lt hj))
        have e2 : (b.minDelay * 3 ^ a + b.minDelay * 2 ^ a) * jd
            = b.minDelay * 3 ^ a * jd + b.minDelay * jd * 2 ^ a := by
          rw [Nat.add_mul, Nat.mul_right_comm b.minDelay (2 ^ a) jd]
        have : (b.minDelay * 3 ^ a * jd + b.minDelay * jn * 2 ^ a) / (2 ^ a * jd) * 2 ^ a * jd
            ≤ (b.minDelay * 3 ^ a + b.minDelay * 2 ^ a) * jd := by
          rw [Nat.mul_assoc]; omega
        exact Nat.le_of_mul_le_mul_right this hjd

/-- Non-vacuity, at the attempt where the unrepaired conversion overflowed (defaults: 100 ms / 5 s). -/
example : ({ minDelay := 100000000, maxDelay := 5000000000 } : Backoff).next (some 63) 1 2 = 5000000000 := by
  decide
example : ({ minDelay := 100000000, maxDelay := 5000000000 } : Backoff).next (some 2) 1 2 = 275000000 := by
  decide

end Jrpc.C05

import Jrpc.Reader
/-
  C20 — Reader parameters stream byte-exact and honour the io.Reader contract.
  Property theorems only.  Model: `Jrpc.Reader` (the `waitReadCloser` wrapper over every read/close
  sequence of the handler and every chunking of the body; the rendezvous table over every arrival
  order of uploads and decoders).
-/
namespace Jrpc.C20
open Jrpc.Reader

/-- The wrapper's bookkeeping invariant: `wait` was closed exactly once iff it is closed. -/
def Ok (w : WRC) : Prop := (w.waitClosed = true → w.closeCount = 1) ∧ (w.waitClosed = false → w.closeCount = 0)

theorem closeWait_rest (w : WRC) : w.closeWait.rest = w.rest := by
  unfold WRC.closeWait; split <;> rfl
theorem closeWait_sticky (w : WRC) : w.closeWait.stickyEOF = w.stickyEOF := by
  unfold WRC.closeWait; split <;> rfl
theorem closeWait_closed (w : WRC) : w.closeWait.waitClosed = true := by
  unfold WRC.closeWait; split
  · assumption
  · rfl

theorem closeWait_ok (w : WRC) (h : Ok w) : Ok w.closeWait := by
  unfold WRC.closeWait Ok at *
  split
  · exact h
  · rename_i hc
    have := h.2 (by simpa using hc)
    simp [this]

/-- The four possible outcomes of a read. -/
theorem readStep_cases (w : WRC) (want got : Nat) (e : Bool) :
    (w.stickyEOF = true ∧ readStep w want got e = (w, .data [] true)) ∨
    (w.stickyEOF = false ∧ readStep w want got e = (w, .refused)) ∨
    (w.stickyEOF = false ∧ w.rest.drop got = [] ∧
      readStep w want got e
        = ({ w with rest := w.rest.drop got, stickyEOF := true }.closeWait, .data (w.rest.take got) true)) ∨
    (w.stickyEOF = false ∧
      readStep w want got e = ({ w with rest := w.rest.drop got }, .data (w.rest.take got) false)) := by
  unfold readStep
  by_cases hs : w.stickyEOF = true
  · left; simp [hs]
  · right
    have hs' : w.stickyEOF = false := by simpa using hs
    simp only [hs', Bool.false_eq_true, if_false]
    split
    · left; exact ⟨trivial, rfl⟩
    · right
      split
      · rename_i hc
        left
        refine ⟨trivial, ?_, rfl⟩
        have := (Bool.and_eq_true _ _).mp hc
        simpa using this.1
      · right; exact ⟨trivial, rfl⟩

theorem step_ok (w : WRC) (op : Op) (h : Ok w) : Ok (step w op).1 := by
  cases op with
  | close => exact closeWait_ok w h
  | read want got e =>
    simp only [step]
    rcases readStep_cases w want got e with ⟨_, hr⟩ | ⟨_, hr⟩ | ⟨_, _, hr⟩ | ⟨_, hr⟩ <;> rw [hr]
    · exact h
    · exact h
    · exact closeWait_ok _ h
    · exact h

theorem step_no_crash (w : WRC) (op : Op) : (step w op).2 ≠ .crash := by
  cases op with
  | close => simp [step]
  | read want got e =>
    simp only [step]
    rcases readStep_cases w want got e with ⟨_, hr⟩ | ⟨_, hr⟩ | ⟨_, _, hr⟩ | ⟨_, hr⟩ <;> rw [hr] <;> simp

/-- C20_nocrash: for every sequence of reads and closes — reads past end-of-file and closes after
    end-of-file included — nothing crashes and `wait` is closed at most once. -/
theorem C20_nocrash (ops : List Op) (w : WRC) (h : Ok w) :
    Out.crash ∉ (run w ops).2 ∧ (run w ops).1.closeCount ≤ 1 ∧ Ok (run w ops).1 := by
  induction ops generalizing w with
  | nil =>
    refine ⟨by simp [run], ?_, h⟩
    simp only [run]
    cases hc : w.waitClosed
    · rw [h.2 hc]; omega
    · rw [h.1 hc]; omega
  | cons op ops ih =>
    obtain ⟨i1, i2, i3⟩ := ih (step w op).1 (step_ok w op h)
    simp only [run]
    refine ⟨?_, i2, i3⟩
    intro hm
    rcases List.mem_cons.mp hm with he | ht
    · exact step_no_crash w op he.symm
    · exact i1 ht

/-- One step hands over a prefix of what is left, and leaves the rest. -/
theorem step_bytes (w : WRC) (op : Op) :
    (match (step w op).2 with | .data bs _ => bs | _ => []) ++ (step w op).1.rest = w.rest := by
  cases op with
  | close => simp [step, closeWait_rest]
  | read want got e =>
    simp only [step]
    rcases readStep_cases w want got e with ⟨_, hr⟩ | ⟨_, hr⟩ | ⟨_, _, hr⟩ | ⟨_, hr⟩ <;> rw [hr] <;>
      simp [closeWait_rest]

/-- C20_bytes: whatever the chunking and the read pattern, the bytes handed to the handler followed by
    what is still unread are exactly the caller's byte sequence — nothing lost, duplicated, reordered
    or invented. -/
theorem C20_bytes (ops : List Op) (w : WRC) : bytesOf (run w ops).2 ++ (run w ops).1.rest = w.rest := by
  induction ops generalizing w with
  | nil => simp [run, bytesOf]
  | cons op ops ih =>
    simp only [run]
    have hs := step_bytes w op
    have := ih (step w op).1
    cases ho : (step w op).2 with
    | data bs eof => simp only [ho] at hs; simp only [bytesOf, List.append_assoc]; rw [this]; exact hs
    | closed => simp only [ho] at hs; simp only [bytesOf]; rw [this]; simpa using hs
    | crash => simp only [ho] at hs; simp only [bytesOf]; rw [this]; simpa using hs
    | refused => simp only [ho] at hs; simp only [bytesOf]; rw [this]; simpa using hs

/-- The first end-of-file is only reported when everything was delivered; it makes the error sticky
    and releases the upload handler. -/
theorem C20_eof_first (w : WRC) (op : Op) (bs : List Nat) (hne : w.stickyEOF = false)
    (h : (step w op).2 = .data bs true) :
    (step w op).1.rest = [] ∧ (step w op).1.stickyEOF = true ∧ (step w op).1.waitClosed = true := by
  cases op with
  | close => simp [step] at h
  | read want got e =>
    simp only [step] at h ⊢
    rcases readStep_cases w want got e with ⟨hs, _⟩ | ⟨_, hr⟩ | ⟨_, hd, hr⟩ | ⟨_, hr⟩
    · rw [hne] at hs; cases hs
    · rw [hr] at h; simp at h
    · rw [hr]; simp [closeWait_rest, closeWait_sticky, closeWait_closed, hd]
    · rw [hr] at h; simp at h

/-- C20_eof: after the first end-of-file every further read reports end-of-file (with no data), and
    Close returns — for every continuation. -/
theorem C20_eof (w : WRC) (hs : w.stickyEOF = true) (op : Op) :
    (step w op).1.stickyEOF = true ∧
    (match op with
     | .read _ _ _ => (step w op).2 = .data [] true
     | .close => (step w op).2 = .closed) := by
  cases op with
  | close => simp [step, closeWait_sticky, hs]
  | read want got e => simp [step, readStep, hs]

/-- C20_done: the upload request is released (`wait` closed) only by an end-of-file report or by Close. -/
theorem C20_done (w : WRC) (op : Op) (hw : w.waitClosed = false) (hc : (step w op).1.waitClosed = true) :
    (∃ bs, (step w op).2 = .data bs true) ∨ (step w op).2 = .closed := by
  cases op with
  | close => right; simp [step]
  | read want got e =>
    left
    simp only [step] at hc ⊢
    rcases readStep_cases w want got e with ⟨_, hr⟩ | ⟨_, hr⟩ | ⟨_, _, hr⟩ | ⟨_, hr⟩
    · rw [hr]; exact ⟨_, rfl⟩
    · rw [hr] at hc; simp [hw] at hc
    · rw [hr]; exact ⟨_, rfl⟩
    · rw [hr] at hc; simp [hw] at hc

/-! ### rendezvous -/

theorem get_set_self (t : Table) (u : Nat) (s : Slot) : (t.set u s).get u = s := by
  simp [Table.get, Table.set, List.lookup]

theorem lookup_filter_ne (t : Table) (u v : Nat) (h : v ≠ u) :
    (t.filter (·.1 != u)).lookup v = t.lookup v := by
  induction t with
  | nil => rfl
  | cons p t ih =>
    by_cases hp : p.1 = u
    · have : (p.1 != u) = false := by simp [hp]
      simp only [List.filter_cons, this, Bool.false_eq_true, if_false, ih]
      have hv : (v == p.1) = false := by simp [hp, h]
      simp [List.lookup, hv]
    · have : (p.1 != u) = true := by simpa using hp
      simp only [List.filter_cons, this, if_true, List.lookup]
      cases hvp : v == p.1 <;> simp [ih]

theorem get_set_ne (t : Table) (u v : Nat) (s : Slot) (h : v ≠ u) : (t.set u s).get v = t.get v := by
  have hb : (v == u) = false := by simpa using h
  simp [Table.get, Table.set, List.lookup, hb, lookup_filter_ne t u v h]

/-- Every reader waiting in the table under `u` was offered by an upload under `u`. -/
def TInv (seen : List TEvent) (t : Table) : Prop :=
  ∀ u r, r ∈ (t.get u).offers → TEvent.upload u r ∈ seen

theorem tstep_inv (seen : List TEvent) (t : Table) (e : TEvent) (h : TInv seen t) :
    TInv (seen ++ [e]) (tstep t e).1 ∧
    ∀ ho, (tstep t e).2 = some ho → TEvent.upload ho.uuid ho.reader ∈ seen ++ [e] := by
  cases e with
  | upload u r =>
    simp only [tstep]
    split
    · refine ⟨?_, ?_⟩
      · intro v x hx
        by_cases hv : v = u
        · subst hv; rw [get_set_self] at hx; exact List.mem_append_left _ (h _ _ hx)
        · rw [get_set_ne _ _ _ _ hv] at hx; exact List.mem_append_left _ (h _ _ hx)
      · intro ho hho; cases hho; simp
    · refine ⟨?_, by intro ho hho; cases hho⟩
      intro v x hx
      by_cases hv : v = u
      · subst hv; rw [get_set_self] at hx
        rcases List.mem_append.mp hx with hx | hx
        · exact List.mem_append_left _ (h _ _ hx)
        · simp at hx; subst hx; simp
      · rw [get_set_ne _ _ _ _ hv] at hx; exact List.mem_append_left _ (h _ _ hx)
  | decode u =>
    simp only [tstep]
    split
    · rename_i r rest heq
      refine ⟨?_, ?_⟩
      · intro v x hx
        by_cases hv : v = u
        · subst hv; rw [get_set_self] at hx
          exact List.mem_append_left _ (h _ _ (by rw [heq]; exact List.mem_cons_of_mem _ hx))
        · rw [get_set_ne _ _ _ _ hv] at hx; exact List.mem_append_left _ (h _ _ hx)
      · intro ho hho; cases hho
        exact List.mem_append_left _ (h u r (by rw [heq]; exact List.mem_cons_self))
    · refine ⟨?_, by intro ho hho; cases hho⟩
      intro v x hx
      by_cases hv : v = u
      · subst hv; rw [get_set_self] at hx; exact List.mem_append_left _ (h _ _ hx)
      · rw [get_set_ne _ _ _ _ hv] at hx; exact List.mem_append_left _ (h _ _ hx)

theorem trun_handoffs (es : List TEvent) (seen : List TEvent) (t : Table) (h : TInv seen t) :
    ∀ ho ∈ (trun t es).2, TEvent.upload ho.uuid ho.reader ∈ seen ++ es := by
  induction es generalizing seen t with
  | nil => intro ho hm; simp [trun] at hm
  | cons e es ih =>
    intro ho hm
    simp only [trun] at hm
    obtain ⟨hinv, hho⟩ := tstep_inv seen t e h
    rcases List.mem_append.mp hm with h1 | h2
    · have : (tstep t e).2 = some ho := by
        cases hx : (tstep t e).2 with
        | none => simp [hx] at h1
        | some y => simp [hx] at h1; rw [h1]
      have := hho ho this
      rcases List.mem_append.mp this with a | b
      · exact List.mem_append_left _ a
      · simp at b; rw [b]; simp
    · have := ih (seen ++ [e]) _ hinv ho h2
      simpa [List.append_assoc] using this

/-- C20_meet: for every interleaving of upload arrivals and decoder arrivals (either order first, any
    number of concurrent calls), a decoder asking for a uuid is only ever handed a body that was
    uploaded under that very uuid. -/
theorem C20_meet (es : List TEvent) :
    ∀ ho ∈ (trun [] es).2, TEvent.upload ho.uuid ho.reader ∈ es := by
  intro ho hm
  have := trun_handoffs es [] [] (by intro u r hr; simp [Table.get] at hr) ho hm
  simpa using this

/-- Both arrival orders meet (non-vacuity of the rendezvous), and a read-past-EOF / close-after-EOF
    sequence on a 3-byte body. -/
example : (trun [] [.upload 7 100, .decode 7]).2 = [⟨7, 100⟩] := by decide
example : (trun [] [.decode 7, .upload 8 200, .upload 7 100, .decode 8]).2 = [⟨7, 100⟩, ⟨8, 200⟩] := by decide
example : (run { rest := [1, 2, 3] } [.read 2 2 false, .read 2 1 false, .read 2 0 false, .read 2 0 false, .close, .close]).2
    = [.data [1, 2] false, .data [3] false, .data [] true, .data [] true, .closed, .closed] := by decide
example : (run { rest := [1, 2, 3] } [.read 8 3 true, .read 1 0 false, .close]).1.closeCount = 1 := by decide

end Jrpc.C20

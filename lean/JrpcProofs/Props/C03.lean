import JrpcProofs.Lemmas.Corr
/-
  C03 — No call hangs or gets a foreign result, whatever connection fault occurs.
  Property theorems only.  Model: `Jrpc.Corr`.  Faults are the events `readerErr` (the next read fails:
  FIN, RST, deadline after a stall) and `readError` (a frame's payload is cut), enabled in every state;
  the reconnect path (`reconnBegin`, `cifSend*`, `cifClear`, `reconnSpawn`, `swap`/`abort`) and the
  exit path are events too.

  "Every call returns" is proved in its safety form: every outstanding attempt has an owner that is
  obliged to answer it, and the owner can move.  The step from "can move" to "does move" is scheduler
  fairness (PARTIAL, DESIGN §2).
-/
namespace Jrpc.C03
open Jrpc Jrpc.Corr

/-- C03_owner: in every reachable state, an id-bearing attempt that the main loop has taken and that
    has neither an answer in its mailbox nor received one is (1) being handled by the main loop right
    now, or (2) registered in `inflight` under its own id, or (3) held by the frame executor, which is
    about to put its response into the mailbox.  There is no fourth place: an attempt can never be
    "written and forgotten". -/
theorem C03_owner (es : List Ev) (s : St) (hr : run? {} es = some s) (a : Nat)
    (ht : (s.att a).taken = true) (hid : (s.att a).id ≠ .nil)
    (hm : (s.att a).mail = []) (hrcv : (s.att a).recvd = none) :
    s.mainPc = .handling a ∨ s.getInflight (s.att a).id = some a ∨
    s.fePending = some ((s.att a).id, a) ∨ s.feSending = some ((s.att a).id, a) :=
  (reach_inv es s hr).2.owner a ht hid hm hrcv

/-- C03_window: between the moment the loss is acted upon and the completion of the redial, the
    connection is marked bad — on either detection path (failed read between frames, or a frame cut in
    the middle); the fail-fast check of a request taken in that window can therefore only come out
    "bad", and a request is registered only after a check that came out "good" while no redial was
    in progress. -/
theorem C03_window (es : List Ev) (s : St) (hr : run? {} es = some s)
    (hw : s.redialing = true ∨ s.mainPc = .sweeping false ∨ s.mainPc = .swept false) :
    s.incomingErr = true ∧ ∀ a, step? s (.errCheck a false) = none := by
  have hi := (reach_inv es s hr).1.window hw
  refine ⟨hi, ?_⟩
  intro a
  simp [step?, hi]

theorem C03_register_needs_good_check (es : List Ev) (s s' : St) (hr : run? {} es = some s) (a : Nat)
    (hs : step? s (.register a) = some s') : s.decided = some false ∧ s.redialing = false := by
  simp only [step?] at hs
  split at hs
  · rename_i hg
    simp at hg
    exact ⟨hg.1.2, (reach_inv es s hr).1.decidedOk a hg.1.1.1 hg.1.2⟩
  · cases hs

/-- … and after a "bad" check the request can be failed fast (the main loop is not stuck on it). -/
theorem C03_failfast_enabled (es : List Ev) (s : St) (hr : run? {} es = some s) (a : Nat)
    (hh : s.mainPc = .handling a) (hid : (s.att a).id ≠ .nil) (he : s.decided = some true)
    (hreg : (s.att a).registered = false) : (step? s (.failfast a)).isSome := by
  have hf := (reach_inv es s hr).2.handlingFresh a hh
  simp [step?, hh, hid, he, hreg, hf.1]

/-- C03_sweep: the sweep leaves nothing behind: when `inflight` is cleared every attempt that was in
    it has an answer (the connection error, or the genuine response that arrived first), and entries
    are only ever registered for the current connection epoch. -/
theorem C03_sweep (s s' : St) (hs : step? s .cifClear = some s') :
    s'.inflight = [] ∧ ∀ id a, s.getInflight id = some a → (s.att a).mail ≠ [] ∨ (s.att a).recvd ≠ none := by
  simp only [step?] at hs
  split at hs
  · split at hs
    · rename_i hall
      cases hs
      refine ⟨rfl, ?_⟩
      intro id a hl
      have := all_of_mem _ _ hall _ (mem_of_lookup _ _ _ hl)
      simp at this
      rcases this with h | h
      · left; intro he; simp [he] at h
      · right; intro he; simp [he] at h
    · cases hs
  · cases hs

theorem C03_epoch (es : List Ev) (s : St) (hr : run? {} es = some s) (id : NId) (a : Nat)
    (hl : s.getInflight id = some a) : (s.att a).epoch = s.epoch :=
  (reach_inv es s hr).2.inflEpoch id a hl

/-- C03_sweep_never_blocks: the sweep's send is non-blocking — for every entry one of the two outcomes
    is enabled, whatever the mailbox holds — so the main loop cannot be wedged inside `closeInFlight`
    (the three-party deadlock of the unrepaired code). -/
theorem C03_sweep_never_blocks (s : St) (x : Bool) (id : NId) (a : Nat)
    (hp : s.mainPc = .sweeping x) (hl : s.getInflight id = some a) :
    (step? s (.cifSend id a true)).isSome ∨ (step? s (.cifSend id a false)).isSome := by
  by_cases hm : (s.att a).mail.isEmpty = true
  · left; simp [step?, hp, hl, hm]
  · right; simp [step?, hp, hl, hm]

/-- C03_foreign: C02_own holds with every fault event interleaved (it is the same theorem: `run?`
    already ranges over fault events). -/
theorem C03_foreign (es : List Ev) (s : St) (hr : run? {} es = some s) (a : Nat) (m : Msg)
    (hm : (s.att a).recvd = some m) : m = .connErr ∨ m = .ack ∨ m = .genuine (s.att a).id :=
  (reach_inv es s hr).1.own a m (Or.inr hm)

/-- Non-vacuity: a frame cut in the middle while one call is in flight and one arrives in the window. -/
def demo : List Ev := [.enq 1 (.num "1"), .take 1, .errCheck 1 false, .register 1, .wrote 1, .readError, .reconnBegin,
  .cifSend (.num "1") 1 true, .cifClear, .reconnSpawn, .enq 2 (.num "2"), .take 2, .errCheck 2 true, .failfast 2, .recv 1 true, .recv 2 true,
  .swap, .enq 3 (.num "3"), .take 3, .errCheck 3 false, .register 3, .wrote 3]
example : (run? {} demo).map (fun s => ((s.att 1).recvd, (s.att 2).recvd, s.inflight, s.incomingErr)) =
    some (some .connErr, some .connErr, [(.num "3", 3)], false) := by decide

end Jrpc.C03

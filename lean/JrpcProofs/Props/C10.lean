import Jrpc.Frames
import Jrpc.Framing
/-
  C10 — No peer input can crash or wedge the process; oversize bodies are refused.
  Property theorems only.  Model: `Jrpc.Frames` (frame executor with explicit crash outcomes, hostile
  peer: arbitrary frames) and `Jrpc.Framing` (size limit).
-/
namespace Jrpc.C10
open Jrpc

theorem getElem?_of_not_lt {α} (l : List α) (n : Nat) (h : ¬ l.length < n + 1) : ∃ v, l[n]? = some v := by
  have : n < l.length := by omega
  exact ⟨l[n], by simp [this]⟩

theorem cancelCtx_no_crash (s : ExecState) (p : CtlParams) : (cancelCtx s p).isCrash = false := by
  unfold cancelCtx
  cases p.decoded with
  | none => rfl
  | some elems =>
    simp only
    split
    · rfl
    · rename_i hl
      obtain ⟨v, hv⟩ := getElem?_of_not_lt elems 0 hl
      simp only [hv]
      cases v.key? with
      | none => rfl
      | some key => simp only; split <;> rfl

theorem handleChanMessage_no_crash (s : ExecState) (p : CtlParams) :
    (handleChanMessage s p).isCrash = false := by
  unfold handleChanMessage
  cases p.decoded with
  | none => rfl
  | some elems =>
    simp only
    split
    · rfl
    · rename_i hl
      obtain ⟨v, hv⟩ := getElem?_of_not_lt elems 0 (by omega)
      obtain ⟨w, hw⟩ := getElem?_of_not_lt elems 1 hl
      simp only [hv, hw]
      cases v.chanIdOf with
      | none => rfl
      | some ch => simp only; split <;> rfl

theorem handleChanClose_no_crash (s : ExecState) (p : CtlParams) :
    (handleChanClose s p).isCrash = false := by
  unfold handleChanClose
  cases p.decoded with
  | none => rfl
  | some elems =>
    simp only
    split
    · rfl
    · rename_i hl
      obtain ⟨v, hv⟩ := getElem?_of_not_lt elems 0 hl
      simp only [hv]
      cases v.chanIdOf with
      | none => rfl
      | some ch => simp only; split <;> rfl

theorem handleResponse_no_crash (s : ExecState) (id : NId) : (handleResponse s id).isCrash = false := by
  unfold handleResponse; split <;> rfl

/-- C10_nocrash: for every handler table, every endpoint state and every frame descriptor — ids of
    every JSON type, params of every shape, responses to requests never made, undecodable buffers —
    executing the frame does not crash the process. -/
theorem C10_nocrash (h : Handler) (s : ExecState) (f : FrameIn) : (execFrame h s f).isCrash = false := by
  unfold execFrame
  split
  · rfl
  · cases normalizeID f.id with
    | none => rfl
    | some id =>
      simp only
      split
      · exact handleResponse_no_crash s id
      · split
        · exact cancelCtx_no_crash s f.params
        · split
          · exact handleChanMessage_no_crash s f.params
          · split
            · exact handleChanClose_no_crash s f.params
            · split
              · split <;> rfl
              · rfl

/-- … and therefore no finite sequence of frames does. -/
theorem C10_nocrash_seq (h : Handler) (fs : List FrameIn) (s : ExecState) :
    (execFrames h s fs).isCrash = false := by
  induction fs generalizing s with
  | nil => rfl
  | cons f fs ih =>
    simp only [execFrames]
    have := C10_nocrash h s f
    cases hf : execFrame h s f with
    | ok s' => exact ih s'
    | crash w => rw [hf] at this; simp [Outcome.isCrash] at this

/-- C10_isolation (same connection): a control frame or a response touches only the bookkeeping a
    well-formed frame of that kind could touch — it never starts a handler and never alters the
    registered calls (`handling`), so later valid requests are dispatched as before. -/
theorem C10_control_frames_confined (h : Handler) (s s' : ExecState) (f : FrameIn)
    (hm : f.method = "" ∨ f.method = "xrpc.cancel" ∨ f.method = "xrpc.ch.val" ∨ f.method = "xrpc.ch.close")
    (he : execFrame h s f = .ok s') :
    s'.spawned = s.spawned ∧ s'.handling = s.handling ∧ s'.hasHandler = s.hasHandler := by
  unfold execFrame at he
  split at he
  · cases he; exact ⟨rfl, rfl, rfl⟩
  · cases hn : normalizeID f.id with
    | none => simp [hn] at he; cases he; exact ⟨rfl, rfl, rfl⟩
    | some id =>
      simp only [hn] at he
      rcases hm with hm | hm | hm | hm
      · simp only [hm, if_true] at he
        unfold handleResponse at he
        split at he <;> (cases he; exact ⟨rfl, rfl, rfl⟩)
      · simp only [hm] at he
        simp only [show ¬ ("xrpc.cancel" = "") by decide, if_false, if_true] at he
        unfold cancelCtx at he
        repeat' split at he
        all_goals first | (cases he; exact ⟨rfl, rfl, rfl⟩) | simp at he
      · simp only [hm] at he
        simp only [show ¬ ("xrpc.ch.val" = "") by decide, show ¬ ("xrpc.ch.val" = "xrpc.cancel") by decide,
          if_false, if_true] at he
        unfold handleChanMessage at he
        repeat' split at he
        all_goals first | (cases he; exact ⟨rfl, rfl, rfl⟩) | simp at he
      · simp only [hm] at he
        simp only [show ¬ ("xrpc.ch.close" = "") by decide, show ¬ ("xrpc.ch.close" = "xrpc.cancel") by decide,
          show ¬ ("xrpc.ch.close" = "xrpc.ch.val") by decide, if_false, if_true] at he
        unfold handleChanClose at he
        repeat' split at he
        all_goals first | (cases he; exact ⟨rfl, rfl, rfl⟩) | simp at he

/-- C10_isolation (other connections): the executor is a function of this endpoint's state only;
    a family of connections indexed by `k` evolves pointwise. -/
def execOn (h : Handler) (conns : Nat → ExecState) (k : Nat) (f : FrameIn) : Option (Nat → ExecState) :=
  match execFrame h (conns k) f with
  | .ok s' => some (fun i => if i = k then s' else conns i)
  | .crash _ => none

theorem C10_other_connections_untouched (h : Handler) (conns conns' : Nat → ExecState) (k j : Nat)
    (f : FrameIn) (hjk : j ≠ k) (he : execOn h conns k f = some conns') : conns' j = conns j := by
  unfold execOn at he
  split at he
  · cases he; simp [hjk]
  · cases he

theorem C10_never_wedges (h : Handler) (conns : Nat → ExecState) (k : Nat) (f : FrameIn) :
    (execOn h conns k f).isSome := by
  unfold execOn
  have := C10_nocrash h (conns k) f
  cases hf : execFrame h (conns k) f with
  | ok s' => rfl
  | crash w => rw [hf] at this; simp [Outcome.isCrash] at this

/-- C10_limit: for every limit L and body length n the body is rejected iff n > L (measured before
    trimming), with an error object and without running a handler. -/
theorem C10_limit_rejects (h : Handler) (maxSize size : Nat) (body : BodyIn) (hs : size > maxSize) :
    h.handleReader maxSize size body
      = { status := 500, toks := [.obj ⟨.nil, .error (-32700)⟩], invoked := [] } := by
  simp [Handler.handleReader, hs, codeParseError]

theorem C10_limit_exact (h : Handler) (maxSize : Nat) (body : BodyIn) :
    h.handleReader maxSize maxSize body = h.handleReader (maxSize + 1) maxSize body ∧
    h.handleReader maxSize (maxSize + 1) body
      = { status := 500, toks := [.obj ⟨.nil, .error (-32700)⟩], invoked := [] } := by
  constructor
  · have h1 : ¬ maxSize > maxSize := by omega
    have h2 : ¬ maxSize > maxSize + 1 := by omega
    simp [Handler.handleReader, h1, h2]
  · exact C10_limit_rejects h maxSize (maxSize + 1) body (by omega)

/-- Non-vacuity: the frames that crashed the unrepaired library are answered by doing nothing. -/
def st : ExecState := { handling := [.num "7"], chanHandlers := ["3"] }
def fr (m : String) (p : CtlParams) : FrameIn := { decodable := true, id := .absent, method := m, params := p }
example : execFrame default st (fr "xrpc.cancel" (.arr [])) = .ok st := by decide
example : execFrame default st (fr "xrpc.cancel" .null) = .ok st := by decide
example : execFrame default st (fr "xrpc.cancel" (.arr [⟨.arr, "[1]"⟩])) = .ok st := by decide
example : execFrame default st (fr "xrpc.ch.val" (.arr [⟨.uint, "3"⟩])) = .ok st := by decide
example : execFrame default st (fr "xrpc.cancel" (.arr [⟨.uint, "7"⟩]))
    = .ok { st with cancelled := [.num "7"] } := by decide

end Jrpc.C10

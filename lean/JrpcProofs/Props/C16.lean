import Jrpc.Reverse
import JrpcProofs.Props.C02
import JrpcProofs.Props.C03
import JrpcProofs.Props.C18
import JrpcProofs.Lemmas.CorrExtra
/-
  C16 — Reverse calls reach the calling client and fail, not block, once it is gone.
  Property theorems only.  Model: `Jrpc.Reverse` (a family of `Jrpc.Corr` endpoints, one per connection).

  The dispatch guarantees of the client-side handler table (aliases, method tags) are C11/C12's
  theorems over `Jrpc.Dispatch`: the client builds the same `handler` type (`makeHandler`, `register`,
  `aliasedMethods`; tied by the regenerated skeleton of `websocketClient`).
-/
namespace Jrpc.C16
open Jrpc Jrpc.Reverse

/-- C16_affinity: whatever the population, the reverse client found in the context of a handler that
    serves connection `c` feeds connection `c`'s own endpoint — every event of a reverse call made
    through it is an event of endpoint `c`. -/
theorem C16_affinity (cfg : SrvCfg) (t : Transport) (c target : Nat) (h : extract cfg t c = some target) :
    target = c ∧ t = .ws ∧ cfg.reverse = true := by
  cases t <;> simp [extract, ctxValue] at h
  exact ⟨h.2.symm, rfl, h.1⟩

theorem C16_affinity_events (cfg : SrvCfg) (t : Transport) (c : Nat) (evs : List Corr.Ev) (wes : List WEv)
    (h : reverseCallEvents cfg t c evs = some wes) : ∀ e ∈ wes, e.1 = c := by
  simp only [reverseCallEvents] at h
  cases hx : extract cfg t c with
  | none => simp [hx] at h
  | some target =>
    have := (C16_affinity cfg t c target hx).1
    simp only [hx, Option.map_some, Option.some.injEq] at h
    subst h; subst this
    intro e he
    simp at he
    obtain ⟨_, _, rfl⟩ := he
    rfl

/-- C16_absent: over HTTP or a custom transport, or without the server option, nothing is found. -/
theorem C16_absent (cfg : SrvCfg) (t : Transport) (c : Nat) (h : t ≠ .ws ∨ cfg.reverse = false) :
    extract cfg t c = none := by
  cases t <;> simp [extract, ctxValue]
  rcases h with h | h
  · exact absurd rfl h
  · exact h

/-- a step of one endpoint leaves every other endpoint untouched -/
theorem wstep_frame (w w' : World) (e : WEv) (hs : wstep? w e = some w') (d : Nat) (hd : d ≠ e.1) : w' d = w d := by
  simp only [wstep?] at hs
  cases h : Corr.step? (w e.1) e.2 with
  | none => simp [h] at hs
  | some s =>
    simp [h] at hs
    subst hs
    simp [World.set, hd]

theorem wstep_own (w w' : World) (e : WEv) (hs : wstep? w e = some w') : Corr.step? (w e.1) e.2 = some (w' e.1) := by
  simp only [wstep?] at hs
  cases h : Corr.step? (w e.1) e.2 with
  | none => simp [h] at hs
  | some s =>
    simp [h] at hs
    subst hs
    simp [World.set]

/-- C16_population_independent: in every run of a server with any number of connections, and any
    interleaving of their events, what endpoint `c` does is a run of `Jrpc.Corr` on its own events:
    nothing the other connections do is visible to it. -/
theorem C16_population_independent (c : Nat) (es : List WEv) :
    ∀ (w w' : World), wrun? w es = some w' → Corr.run? (w c) (proj c es) = some (w' c) := by
  induction es with
  | nil => intro w w' h; simp [wrun?] at h; subst h; simp [proj, Corr.run?]
  | cons e es ih =>
    intro w w' h
    simp only [wrun?] at h
    cases hs : wstep? w e with
    | none => simp [hs] at h
    | some w1 =>
      simp only [hs, Option.bind_some] at h
      have ih' := ih w1 w' h
      by_cases hc : e.1 = c
      · have hown := wstep_own w w1 e hs
        rw [hc] at hown
        have : proj c (e :: es) = e.2 :: proj c es := by simp [proj, hc]
        rw [this]
        simp only [Corr.run?, hown, Option.bind_some]
        exact ih'
      · have hfr := wstep_frame w w1 e hs c (fun h => hc h.symm)
        have : proj c (e :: es) = proj c es := by
          simp only [proj]
          rw [List.filter_cons_of_neg (by simpa using hc)]
        rw [this, ← hfr]
        exact ih'

/-- C16_correlation: the forward correlation guarantee (C02_own: a caller only ever receives the
    connection error, the notification ack, or a response frame carrying its own id) holds for the
    reverse calls of every connection, whatever the others do. -/
theorem C16_correlation (c : Nat) (es : List WEv) (w : World) (hr : wrun? (fun _ => {}) es = some w)
    (a : Nat) (m : Corr.Msg) (h : ((w c).att a).recvd = some m) :
    m = .connErr ∨ m = .ack ∨ m = .genuine ((w c).att a).id :=
  C02.C02_own (proj c es) (w c) (C16_population_independent c es _ w hr) a m h

/-- C16_gone: once connection `c` is gone (its loop has exited: `exiting` closed) nothing is left
    registered, every reverse call that had been taken has its answer (the connection error from the
    sweep, or a response that made it) or the executor is handing it over, and every reverse call still
    waiting to be taken can return the "exiting" error — none blocks. -/
theorem C16_gone (c : Nat) (es : List WEv) (w : World) (hr : wrun? (fun _ => {}) es = some w)
    (hx : (w c).exitingClosed = true) :
    (w c).inflight = [] ∧
    (∀ a, ((w c).att a).taken = true → ((w c).att a).id ≠ .nil →
        ((w c).att a).mail ≠ [] ∨ ((w c).att a).recvd ≠ none ∨
        (w c).fePending = some (((w c).att a).id, a) ∨ (w c).feSending = some (((w c).att a).id, a)) ∧
    (∀ a, ((w c).att a).enq = true → ((w c).att a).taken = false → ((w c).att a).exitErr = false →
        (Corr.step? (w c) (.exitErr a)).isSome) := by
  have h := C18.C18_after (proj c es) (w c) (C16_population_independent c es _ w hr) hx
  exact ⟨h.1, h.2.2.2.1, h.2.2.2.2⟩

/-- C16_gone_later: a reverse call started after the connection is gone (in any reachable state of the
    endpoint) is never taken, and its "exiting" error is enabled at once. -/
theorem C16_gone_later (es : List Corr.Ev) (s : Corr.St) (hr : Corr.run? {} es = some s) (hx : s.exitingClosed = true)
    (a : Nat) (id : NId) (s' : Corr.St) (he : Corr.step? s (.enq a id) = some s') :
    Corr.step? s' (.take a) = none ∧ (Corr.step? s' (.exitErr a)).isSome := by
  have hpc := (Corr.reach_inv es s hr).1.exited hx
  have hee := Corr.exitErrEnq_run es {} s Corr.exitErrEnq_init hr a
  simp only [Corr.step?] at he
  split at he
  · cases he
  · next hg =>
    simp at hg
    have hfresh := ((Corr.reach_inv es s hr).1.fresh a hg.1).2.2.1
    have hne : (s.att a).exitErr = false := by
      cases hq : (s.att a).exitErr with
      | false => rfl
      | true => have := hee hq; simp [hg.1] at this
    cases he
    constructor
    · simp [Corr.step?, Corr.St.setAtt, hpc]
    · simp [Corr.step?, Corr.St.setAtt, hx, hfresh, hne]

/-- Non-vacuity: two connections; a reverse call on each, answered in the opposite order; then
    connection 1 goes away with a reverse call in flight. -/
def demo : List WEv := [
  (1, .enq 1 (.num "1")), (2, .enq 1 (.num "1")), (2, .take 1), (1, .take 1),
  (1, .errCheck 1 false), (2, .errCheck 1 false), (1, .register 1), (2, .register 1), (2, .wrote 1), (1, .wrote 1),
  (2, .peerExec 1), (2, .lookup (.num "1") true), (2, .deliver (.num "1") 1), (2, .deliverDone), (2, .recv 1 false), (2, .delete (.num "1")),
  (1, .readerErr), (1, .exitBegin), (1, .cifSend (.num "1") 1 true), (1, .cifClear), (1, .exited), (1, .recv 1 true)]

example : ((wrun? (fun _ => {}) demo).map (fun w => (((w 1).att 1).recvd, ((w 2).att 1).recvd, (w 1).exitingClosed))) =
    some (some .connErr, some (.genuine (.num "1")), true) := by decide

end Jrpc.C16

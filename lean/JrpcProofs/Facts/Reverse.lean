import Jrpc.Reverse
import Jrpc.Generated.Facts
/-
  Obligations over the regenerated facts: the statement skeletons (normalised control flow; log lines,
  comments and formatting removed) of the functions that `Jrpc.Reverse` transcribes are the ones the model was
  written against.  A change to any of them breaks this file; the check then searches for a failing input.
-/
namespace Jrpc.Facts

/-- WithReverseClient: per accepted connection a fresh client whose exit signal is that connection's and whose request queue becomes that connection's; the proxy built on it is stored in the connection context under the proxy type -/
theorem skel_WithReverseClient_shape :
    Generated.skel_WithReverseClient = [
  "return func{…}",
  "  c.reverseClientBuilder = func{…}",
  "    cl := client{ namespace: namespace, paramEncoders: map[reflect.Type]ParamEncoder{}, errors: c.errors, methodNameFormatter: c.methodNameFormatter, }",
  "    cl.exiting = conn.exiting",
  "    requests := cl.setupRequestChan()",
  "    conn.requests = requests",
  "    calls := new(RP)",
  "    err := cl.provide([]interface{}{ calls, })",
  "    if err != nil",
  "      return nil, xerrors.Errorf(\"provide reverse client calls: %w\", err)",
  "    return context.WithValue(ctx, jsonrpcReverseClient{reflect.TypeOf(calls).Elem()}, calls), nil"] := rfl

/-- ExtractReverseClient: a typed context lookup -/
theorem skel_ExtractReverseClient_shape :
    Generated.skel_ExtractReverseClient = [
  "c, ok := ctx.Value(jsonrpcReverseClient{reflect.TypeOf(new(C)).Elem()}).(*C)",
  "if !ok",
  "  return *new(C), false",
  "if c == nil",
  "  return *new(C), false",
  "return *c, ok"] := rfl

/-- handleWS: a new wsConn per upgrade; the builder runs (only here) with that wsConn; the connection loop runs under the resulting context -/
theorem skel_handleWS_shape :
    Generated.skel_handleWS = [
  "w.Header().Set(\"Access-Control-Allow-Origin\", \"*\")",
  "if r.Header.Get(\"Sec-WebSocket-Protocol\") != \"\"",
  "  w.Header().Set(\"Sec-WebSocket-Protocol\", r.Header.Get(\"Sec-WebSocket-Protocol\"))",
  "c, err := upgrader.Upgrade(w, r, nil)",
  "if err != nil",
  "  return",
  "wc := &wsConn{ conn: c, handler: s, pingInterval: s.pingInterval, exiting: make(chan struct{}), }",
  "if s.reverseClientBuilder != nil",
  "  ctx, err = s.reverseClientBuilder(ctx, wc)",
  "  if err != nil",
  "    w.WriteHeader(500)",
  "    return",
  "lbl := pprof.Labels(\"jrpc-mode\", \"wsserver\", \"jrpc-remote\", r.RemoteAddr, \"jrpc-uuid\", uuid.New().String())",
  "pprof.Do(ctx, lbl, func{…})",
  "  go func{…}()",
  "    select",
  "      case <-ctx.Done()",
  "        _ = c.Close()",
  "      case <-wc.exiting",
  "  wc.handleWsConn(ctx)",
  "if err := c.Close(); err != nil",
  "  return"] := rfl

/-- ServeHTTP: plain HTTP goes to handleReader with the request context (no builder) -/
theorem skel_ServeHTTP_shape :
    Generated.skel_ServeHTTP = [
  "ctx := r.Context()",
  "h := strings.ToLower(r.Header.Get(\"Connection\"))",
  "if strings.Contains(h, \"upgrade\")",
  "  ctx = context.WithValue(ctx, connectionTypeCtxKey, ConnectionTypeWS)",
  "  s.handleWS(ctx, w, r)",
  "  return",
  "ctx = context.WithValue(ctx, connectionTypeCtxKey, ConnectionTypeHTTP)",
  "s.handleReader(ctx, r.Body, w, rpcError)"] := rfl

/-- websocketClient: the client-side handler table is the server's handler type (makeHandler, register, aliasedMethods) -/
theorem skel_websocketClient_shape :
    Generated.skel_websocketClient = [
  "connFactory := func{…}",
  "  conn, _, err := websocket.DefaultDialer.Dial(addr, requestHeader)",
  "  if err != nil",
  "    return nil, &RPCConnectionError{xerrors.Errorf(\"cannot dial address %s for %w\", addr, err)}",
  "  return conn, nil",
  "if config.proxyConnFactory != nil",
  "  connFactory = config.proxyConnFactory(connFactory)",
  "conn, err := connFactory()",
  "if err != nil",
  "  return nil, err",
  "if config.noReconnect",
  "  connFactory = nil",
  "c := client{ namespace: namespace, paramEncoders: config.paramEncoders, errors: config.errors, methodNameFormatter: config.methodNamer, }",
  "requests := c.setupRequestChan()",
  "stop := make(chan struct{})",
  "exiting := make(chan struct{})",
  "c.exiting = exiting",
  "var hnd reqestHandler",
  "if len(config.reverseHandlers) > 0",
  "  sc := defaultServerConfig()",
  "  sc.methodNameFormatter = config.methodNamer",
  "  sc.errors = config.errors",
  "  h := makeHandler(sc)",
  "  h.aliasedMethods = config.aliasedHandlerMethods",
  "  range config.reverseHandlers",
  "    h.register(reverseHandler.ns, reverseHandler.hnd)",
  "  hnd = h",
  "wconn := &wsConn{ conn: conn, connFactory: connFactory, reconnectBackoff: config.reconnectBackoff, pingInterval: config.pingInterval, timeout: config.timeout, handler: hnd, requests: requests, stop: stop, exiting: exiting, }",
  "go func{…}()",
  "  lbl := pprof.Labels(\"jrpc-mode\", \"wsclient\", \"jrpc-remote\", addr, \"jrpc-local\", conn.LocalAddr().String(), \"jrpc-uuid\", uuid.New().String())",
  "  pprof.Do(ctx, lbl, func{…})",
  "    wconn.handleWsConn(ctx)",
  "if err := c.provide(outs); err != nil",
  "  return nil, err",
  "return func{…}, nil",
  "  close(stop)",
  "  <-exiting"] := rfl

end Jrpc.Facts

import Jrpc.Call
import Jrpc.Generated.Facts
/-
  Obligations over the regenerated facts: the statement skeletons (normalised control flow; log lines,
  comments and formatting removed) of the functions that `Jrpc.Call` transcribes are the ones the model was
  written against.  A change to any of them breaks this file; the check then searches for a failing input.
-/
namespace Jrpc.Facts

/-- `WithParamEncoder`: custom encoder keyed by the parameter's type. -/
theorem skel_WithParamEncoder_shape :
    Generated.skel_WithParamEncoder = [
  "return func{…}",
  "  c.paramEncoders[reflect.TypeOf(t).Elem()] = encoder"] := rfl

/-- `WithParamDecoder`: custom decoder keyed by the parameter's type. -/
theorem skel_WithParamDecoder_shape :
    Generated.skel_WithParamDecoder = [
  "return func{…}",
  "  c.paramDecoders[reflect.TypeOf(t).Elem()] = decoder"] := rfl

/-- `DecodeParams`: raw params decoded into a caller-chosen type. -/
theorem skel_DecodeParams_shape :
    Generated.skel_DecodeParams = [
  "var t T",
  "err := json.Unmarshal(p, &t)",
  "return t, err"] := rfl

/-- `WithHTTPClient`. -/
theorem skel_WithHTTPClient_shape :
    Generated.skel_WithHTTPClient = [
  "return func{…}",
  "  c.httpClient = h"] := rfl

/-- `failedWriter.Write`: the writer handed to a response that could not get a websocket writer; it fails every write. -/
theorem skel_failedWriter_Write_shape :
    Generated.skel_failedWriter_Write = [
  "return 0, xerrors.New(\"could not acquire a writer for the response\")"] := rfl

end Jrpc.Facts

import Jrpc.Framing
import Jrpc.Generated.Facts
/-
  Obligations over the regenerated facts: the statement skeletons (normalised control flow; log lines,
  comments and formatting removed) of the functions that `Jrpc.Framing` transcribes are the ones the model was
  written against.  A change to any of them breaks this file; the check then searches for a failing input.
-/
namespace Jrpc.Facts

/-- `handleReader`: read limit+1 bytes, reject when the limit is exceeded (before trimming), trim, blank body ↦ invalid request, batch detection on the first byte, per-element handling through the batch writer, single request decode ↦ parse error with the partial id, id normalisation, `handle`. -/
theorem skel_handleReader_shape :
    Generated.skel_handleReader = [
  "wf := func{…}",
  "  cb(w)",
  "bufferedRequest := new(bytes.Buffer)",
  "limit := s.maxRequestSize",
  "if limit < math.MaxInt64",
  "  limit++",
  "reqSize, err := bufferedRequest.ReadFrom(io.LimitReader(r, limit))",
  "if err != nil",
  "  rpcError(wf, nil, rpcParseError, xerrors.Errorf(\"reading request: %w\", err))",
  "  return",
  "if reqSize > s.maxRequestSize",
  "  rpcError(wf, nil, rpcParseError, xerrors.Errorf(\"request bigger than maximum %d allowed\", s.maxRequestSize))",
  "  return",
  "bufferedRequest = bytes.NewBuffer(bytes.TrimSpace(bufferedRequest.Bytes()))",
  "reqSize = int64(bufferedRequest.Len())",
  "if reqSize == 0",
  "  rpcError(wf, nil, rpcInvalidRequest, xerrors.New(\"Invalid request\"))",
  "  return",
  "if bufferedRequest.Bytes()[0] == '[' && bufferedRequest.Bytes()[reqSize-1] == ']'",
  "  var reqs []request",
  "  if err := json.Unmarshal(bufferedRequest.Bytes(), &reqs); err != nil",
  "    rpcError(wf, nil, rpcParseError, xerrors.New(\"Parse error\"))",
  "    return",
  "  if len(reqs) == 0",
  "    rpcError(wf, nil, rpcInvalidRequest, xerrors.New(\"Invalid request\"))",
  "    return",
  "  bw := &batchWriter{w: w}",
  "  bwf := func{…}",
  "    cb(bw)",
  "  range reqs",
  "    bw.nextElem()",
  "    if req.ID, err = normalizeID(req.ID); err != nil",
  "      rpcError(bwf, &req, rpcParseError, xerrors.Errorf(\"failed to parse ID: %w\", err))",
  "      continue",
  "    s.handle(ctx, req, notifWriter(req, bwf), rpcError, func{…}, nil)",
  "  bw.finish()",
  "else",
  "  var req request",
  "  if err := json.Unmarshal(bufferedRequest.Bytes(), &req); err != nil",
  "    rpcError(wf, &req, rpcParseError, xerrors.New(\"Parse error\"))",
  "    return",
  "  if req.ID, err = normalizeID(req.ID); err != nil",
  "    rpcError(wf, &req, rpcParseError, xerrors.Errorf(\"failed to parse ID: %w\", err))",
  "    return",
  "  s.handle(ctx, req, notifWriter(req, wf), rpcError, func{…}, nil)"] := rfl

/-- `rpcError`: the error reply (code, message, id echoed) written through the writer callback; HTTP status selection for the protocol codes. -/
theorem skel_rpcError_shape :
    Generated.skel_rpcError = [
  "wf(func{…})",
  "  if hw, ok := w.(http.ResponseWriter); ok",
  "    if code == rpcInvalidRequest",
  "      hw.WriteHeader(http.StatusBadRequest)",
  "    else",
  "      hw.WriteHeader(http.StatusInternalServerError)",
  "  if req == nil",
  "    req = &request{}",
  "  resp := response{ Jsonrpc: \"2.0\", ID: req.ID, Error: &JSONRPCError{ Code: code, Message: err.Error(), }, }",
  "  err = json.NewEncoder(w).Encode(resp)",
  "  if err != nil",
  "    return"] := rfl

/-- `doCall`: the reflective call of a handler method inside a deferred recover that turns a panic into an error. -/
theorem skel_doCall_shape :
    Generated.skel_doCall = [
  "returned := false",
  "defer func{…}()",
  "  if i := recover(); i != nil || !returned",
  "    err = xerrors.Errorf(\"panic in rpc method '%s': %s\", methodName, i)",
  "if f.Type().IsVariadic()",
  "  out = f.CallSlice(params)",
  "else",
  "  out = f.Call(params)",
  "returned = true",
  "return out, nil"] := rfl

/-- `batchWriter.nextElem`: marks an element boundary. -/
theorem skel_batchWriter_nextElem_shape :
    Generated.skel_batchWriter_nextElem = [
  "b.elemStarted = false"] := rfl

/-- `batchWriter.Write`: the opening bracket before the first non-empty element output, a comma before every later one, never for an empty write. -/
theorem skel_batchWriter_Write_shape :
    Generated.skel_batchWriter_Write = [
  "if len(p) == 0",
  "  return 0, nil",
  "if !b.elemStarted",
  "  sep := \"[\"",
  "  if b.started",
  "    sep = \",\"",
  "  if _, err := b.w.Write([]byte(sep)); err != nil",
  "    return 0, err",
  "  b.started, b.elemStarted = true, true",
  "return b.w.Write(p)"] := rfl

/-- `batchWriter.finish`: the closing bracket iff something was written. -/
theorem skel_batchWriter_finish_shape :
    Generated.skel_batchWriter_finish = [
  "if b.started",
  "  _, _ = b.w.Write([]byte(\"]\"))"] := rfl

/-- `handleFrame`: dispatch of an inbound frame on its method member. -/
theorem skel_handleFrame_shape :
    Generated.skel_handleFrame = [
  "switch frame.Method",
  "  case \"\"",
  "    c.handleResponse(frame)",
  "  case wsCancel",
  "    c.cancelCtx(frame)",
  "  case chValue",
  "    c.handleChanMessage(frame)",
  "  case chClose",
  "    c.handleChanClose(frame)",
  "  default",
  "    c.handleCall(ctx, frame, epoch)"] := rfl

/-- `normalizeID`: string, float64 and nil pass, int64 becomes float64, every other dynamic type is an error. -/
theorem skel_normalizeID_shape :
    Generated.skel_normalizeID = [
  "typeswitch v := id.(type)",
  "  case string, float64, nil",
  "    return v, nil",
  "  case int64",
  "    return float64(v), nil",
  "  default",
  "    return nil, xerrors.Errorf(\"invalid id type: %T\", id)"] := rfl

/-- `response.MarshalJSON`: jsonrpc and id always; error iff the response carries one, else result. -/
theorem skel_responseMarshalJSON_shape :
    Generated.skel_responseMarshalJSON = [
  "data := map[string]interface{}{ \"jsonrpc\": r.Jsonrpc, \"id\": r.ID, }",
  "if r.Error != nil",
  "  data[\"error\"] = r.Error",
  "else",
  "  data[\"result\"] = r.Result",
  "return json.Marshal(data)"] := rfl

/-- `RPCServer.HandleRequest`: `handleReader` with `rpcError`. -/
theorem skel_RPCServer_HandleRequest_shape :
    Generated.skel_RPCServer_HandleRequest = [
  "s.handleReader(ctx, r, w, rpcError)"] := rfl

/-- `WithMaxRequestSize`: sets the limit `handleReader` reads. -/
theorem skel_WithMaxRequestSize_shape :
    Generated.skel_WithMaxRequestSize = [
  "return func{…}",
  "  c.maxRequestSize = max"] := rfl

end Jrpc.Facts

import Jrpc.Sweep
import Jrpc.Generated.Facts
/-
  Obligations over the regenerated facts: the statement skeletons (normalised control flow; log lines,
  comments and formatting removed) of the functions that `Jrpc.Sweep` transcribes are the ones the model was
  written against.  A change to any of them breaks this file; the check then searches for a failing input.
-/
namespace Jrpc.Facts

/-- handleResponse: lookup under inflightLk; for a channel result the handler is registered before the response is sent to the caller; the entry is deleted after that send -/
theorem skel_handleResponse_shape :
    Generated.skel_handleResponse = [
  "c.inflightLk.Lock()",
  "req, ok := c.inflight[frame.ID]",
  "c.inflightLk.Unlock()",
  "if !ok",
  "  return",
  "if req.retCh != nil && frame.Result != nil",
  "  // output is channel var chid uint64",
  "  if err := json.Unmarshal(frame.Result, &chid); err != nil",
  "    frame.Error = &JSONRPCError{ Code: 1, Message: fmt.Sprintf(\"unmarshaling channel id response: %s\", err), }",
  "    frame.Result = nil",
  "  else",
  "    chanCtx, chHnd := req.retCh()",
  "    c.chanHandlersLk.Lock()",
  "    c.chanHandlers[chid] = &chanHandler{cb: chHnd}",
  "    c.chanHandlersLk.Unlock()",
  "    go c.handleCtxAsync(chanCtx, frame.ID)",
  "req.ready <- clientResponse{ Jsonrpc: frame.Jsonrpc, Result: frame.Result, ID: frame.ID, Error: frame.Error, }",
  "c.inflightLk.Lock()",
  "if cur, ok := c.inflight[frame.ID]; ok && cur.ready == req.ready",
  "  delete(c.inflight, frame.ID)",
  "c.inflightLk.Unlock()"] := rfl

/-- closeChans: every registered handler is removed and told that its channel is closed -/
theorem skel_closeChans_shape :
    Generated.skel_closeChans = [
  "c.chanHandlersLk.Lock()",
  "defer c.chanHandlersLk.Unlock()",
  "range c.chanHandlers",
  "  hnd := c.chanHandlers[chid]",
  "  hnd.lk.Lock()",
  "  delete(c.chanHandlers, chid)",
  "  c.chanHandlersLk.Unlock()",
  "  hnd.cb(nil, false)",
  "  hnd.lk.Unlock()",
  "  c.chanHandlersLk.Lock()"] := rfl

/-- the exit path of handleWsConn: deferred calls in textual order — they run in reverse, so
    closeInFlight (deferred later) runs BEFORE closeChans: `Sweep.step? true` -/
theorem exit_defers :
    Generated.handleWsConnDefers =
      -- (the sixth stops the keepalive of the connection current at exit — before F38: that of the first one)
      ["cancel", "vhook", "close", "c.closeChans", "c.closeInFlight", "c.stopCurrentPings", "timeoutTimer.Stop", "vhook"] := by decide

/-- tryReconnect sweeps in the same order -/
theorem reconnect_steps :
    Generated.tryReconnectSteps = ["vhook", "c.closeInFlight", "c.closeChans", "assign c.incoming", "vhook", "go"] := by decide

end Jrpc.Facts

import Jrpc.Frames
import Jrpc.Generated.Facts
/-
  Obligations over the regenerated facts: the statement skeletons (normalised control flow; log lines,
  comments and formatting removed) of the functions that `Jrpc.Frames` transcribes are the ones the model was
  written against.  A change to any of them breaks this file; the check then searches for a failing input.
-/
namespace Jrpc.Facts

/-- `cancelCtx`: Unmarshal error ↦ return; `len(params) < 1` ↦ return; id normalised before `c.handling[id]`. -/
theorem skel_cancelCtx_shape :
    Generated.skel_cancelCtx = [
  "if req.ID != nil",
  "var params []param",
  "if err := json.Unmarshal(req.Params, &params); err != nil",
  "  return",
  "if len(params) < 1",
  "  return",
  "var id interface{}",
  "if err := json.Unmarshal(params[0].data, &id); err != nil",
  "  return",
  "id, err := normalizeID(id)",
  "if err != nil",
  "  return",
  "c.handlingLk.Lock()",
  "defer c.handlingLk.Unlock()",
  "cf, ok := c.handling[id]",
  "if ok",
  "  cf()"] := rfl

/-- `handleChanMessage`: `len(params) < 2` guard precedes `params[0]` and `params[1]`. -/
theorem skel_handleChanMessage_shape :
    Generated.skel_handleChanMessage = [
  "var params []param",
  "if err := json.Unmarshal(frame.Params, &params); err != nil",
  "  return",
  "if len(params) < 2",
  "  return",
  "var chid uint64",
  "if err := json.Unmarshal(params[0].data, &chid); err != nil",
  "  return",
  "c.chanHandlersLk.Lock()",
  "hnd, ok := c.chanHandlers[chid]",
  "if !ok",
  "  c.chanHandlersLk.Unlock()",
  "  return",
  "hnd.lk.Lock()",
  "defer hnd.lk.Unlock()",
  "c.chanHandlersLk.Unlock()",
  "hnd.cb(params[1].data, true)"] := rfl

/-- `handleChanClose`: `len(params) < 1` guard precedes `params[0]`. -/
theorem skel_handleChanClose_shape :
    Generated.skel_handleChanClose = [
  "var params []param",
  "if err := json.Unmarshal(frame.Params, &params); err != nil",
  "  return",
  "if len(params) < 1",
  "  return",
  "var chid uint64",
  "if err := json.Unmarshal(params[0].data, &chid); err != nil",
  "  return",
  "c.chanHandlersLk.Lock()",
  "hnd, ok := c.chanHandlers[chid]",
  "if !ok",
  "  c.chanHandlersLk.Unlock()",
  "  return",
  "hnd.lk.Lock()",
  "defer hnd.lk.Unlock()",
  "delete(c.chanHandlers, chid)",
  "c.chanHandlersLk.Unlock()",
  "hnd.cb(nil, false)"] := rfl

/-- `frameExecutor`: an undecodable buffer or an invalid id is skipped (`continue`), everything else goes to `handleFrame`. -/
theorem skel_frameExecutor_shape :
    Generated.skel_frameExecutor = [
  "for",
  "  var qf queuedFrame",
  "  select",
  "    case qf = <-c.frameExecQueue",
  "    case <-ctx.Done()",
  "      select",
  "        case qf = <-c.frameExecQueue",
  "        default",
  "          return",
  "  var frame frame",
  "  if err := json.Unmarshal(qf.buf, &frame); err != nil",
  "    continue",
  "  var err error",
  "  frame.ID, err = normalizeID(frame.ID)",
  "  if err != nil",
  "    continue",
  "  c.handleFrame(ctx, frame, qf.epoch)"] := rfl

/-- `handleResponse`: unknown id ↦ return; channel results register the sink first; deliver to `req.ready`; remove the entry only if it is still this request's. -/
theorem skel_handleResponse_shape :
    Generated.skel_handleResponse = [
  "c.inflightLk.Lock()",
  "req, ok := c.inflight[frame.ID]",
  "c.inflightLk.Unlock()",
  "if !ok",
  "  return",
  "if req.retCh != nil && frame.Result != nil",
  "  // output is channel var chid uint64",
  "  if err := json.Unmarshal(frame.Result, &chid); err != nil",
  "    frame.Error = &JSONRPCError{ Code: 1, Message: fmt.Sprintf(\"unmarshaling channel id response: %s\", err), }",
  "    frame.Result = nil",
  "  else",
  "    chanCtx, chHnd := req.retCh()",
  "    c.chanHandlersLk.Lock()",
  "    c.chanHandlers[chid] = &chanHandler{cb: chHnd}",
  "    c.chanHandlersLk.Unlock()",
  "    go c.handleCtxAsync(chanCtx, frame.ID)",
  "req.ready <- clientResponse{ Jsonrpc: frame.Jsonrpc, Result: frame.Result, ID: frame.ID, Error: frame.Error, }",
  "c.inflightLk.Lock()",
  "if cur, ok := c.inflight[frame.ID]; ok && cur.ready == req.ready",
  "  delete(c.inflight, frame.ID)",
  "c.inflightLk.Unlock()"] := rfl

end Jrpc.Facts

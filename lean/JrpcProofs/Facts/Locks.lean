import Jrpc.Locks
import Jrpc.Generated.Facts
/-
  Obligations over the regenerated facts: every use of the connection object in package jsonrpc, with
  whether `writeLk` is held there.  Writers (NextWriter, WriteJSON, WriteMessage, Close) and the swap
  (`c.conn = conn`) must all be inside the lock — they are the alphabet of `Jrpc.Locks`.  Uses outside
  the lock are reads with an ordering argument, listed one by one:
    * `nextMessage: NextReader` and `resetReadDeadline: SetReadDeadline` run in the reader goroutine of
      the current generation (started after the swap, so ordered by goroutine creation), or — for
      `resetReadDeadline` called from the main loop's pong case — with `writeLk` taken by the caller;
    * `nextMessage: alias.Close` — the reader closes the connection it has just failed to read from
      (repair F34), through the local it captured for that read, never through the field: gorilla documents
      Close as callable concurrently with all other methods, and it writes no frame; the second such site is the
      hand-over that the connection loop did not take within the timeout (repair F44);
    * `readFrame: Close` — a read that failed inside a frame closes the connection it was reading from (repair F44),
      through the field: the read of `c.conn` is ordered before the next assignment, which the redial goroutine makes
      only after the connection loop has received this goroutine's report on `readError`;
    * `setupPings: SetPongHandler / SetPingHandler` and the capture of the connection in a local
      (`alias`) run before any goroutine of the connection exists or, on reconnect, with `writeLk` held
      by the caller;
    * `setupPings.func: alias.WriteControl` — the ping handler answering with a pong — is the one
      writer outside `writeLk`: gorilla documents WriteControl (and Close) as callable concurrently
      with all other methods; it is a control frame, not part of the message alphabet of `Jrpc.Locks`,
      and it uses the connection captured when the handler was installed, never the field `c.conn`.
-/
namespace Jrpc.Facts

theorem conn_uses :
    Generated.connUses = [
      "wsConn.nextMessage: call resetReadDeadline locked=false",
      "wsConn.nextMessage: alias locked=false",
      "wsConn.nextMessage: alias.NextReader locked=false",
      "wsConn.nextMessage: alias.Close locked=false",
      "wsConn.nextMessage: alias.Close locked=false",
      "wsConn.nextWriter: NextWriter locked=true",
      "wsConn.sendRequest: WriteJSON locked=true",
      "wsConn.setupPings: SetPongHandler locked=false",
      "wsConn.setupPings: alias locked=false",
      "wsConn.setupPings: SetPingHandler locked=false",
      "wsConn.setupPings.func: alias.WriteControl locked=false",
      "wsConn.setupPings.func: WriteMessage locked=true",
      "wsConn.tryReconnect.func: assign locked=true",
      "wsConn.tryReconnect.func: call setupPings locked=true",
      "wsConn.readFrame: Close locked=false",
      "wsConn.handleWsConn: call setupPings locked=false",
      "wsConn.handleWsConn: Close locked=true",
      "wsConn.handleWsConn: call resetReadDeadline locked=true",
      "wsConn.handleWsConn: Close locked=true",
      "wsConn.handleWsConn: RemoteAddr locked=true",
      "wsConn.handleWsConn: WriteMessage locked=true",
      "wsConn.handleWsConn: Close locked=true",
      "wsConn.resetReadDeadline: SetReadDeadline locked=false"] := by decide

end Jrpc.Facts

import Jrpc.Base
import Jrpc.Generated.Facts
/-
  Obligations over the regenerated facts: shape of an encoded response object.
  `responseKeys` IS the regenerated model of `response.MarshalJSON`: the keys of its map literal
  plus the keys assigned in the branch taken.
-/
namespace Jrpc.Facts
open Jrpc

/-- Keys of the JSON object `response.MarshalJSON` produces, as a function of `r.Error != nil`. -/
def responseKeys (hasError : Bool) : List String :=
  Generated.responseMarshalBaseKeys ++
    (if hasError then Generated.responseMarshalErrorBranchKeys else Generated.responseMarshalOtherBranchKeys)

/-- C09_object: every response object has `jsonrpc` and `id` and exactly one of `result` / `error`. -/
theorem C09_object (hasError : Bool) :
    "jsonrpc" ∈ responseKeys hasError ∧ "id" ∈ responseKeys hasError ∧
    (("result" ∈ responseKeys hasError ∧ "error" ∉ responseKeys hasError) ∨
     ("error" ∈ responseKeys hasError ∧ "result" ∉ responseKeys hasError)) ∧
    ("error" ∈ responseKeys hasError ↔ hasError = true) ∧
    (responseKeys hasError).length = 3 := by
  cases hasError <;> decide

theorem response_branch_condition : Generated.responseMarshalCond = some "r.Error != nil" := by decide

/-- The id of a response is never omitted; the id of a request/frame is omitted when nil
    (that is what makes a notification id-less on the wire). -/
theorem id_tags :
    ("ID", "id") ∈ Generated.tags_response ∧ ("ID", "id") ∈ Generated.tags_clientResponse ∧
    ("ID", "id,omitempty") ∈ Generated.tags_request ∧ ("ID", "id,omitempty") ∈ Generated.tags_frame := by
  decide

theorem error_tags :
    Generated.tags_JSONRPCError =
      [("Code", "code"), ("Message", "message"), ("Meta", "meta,omitempty"), ("Data", "data,omitempty")] := by
  decide

end Jrpc.Facts

import Jrpc.Errors
import Jrpc.Generated.Facts
/-
  Obligations over the regenerated facts: the statement skeletons (normalised control flow; log lines,
  comments and formatting removed) of the functions that `Jrpc.Errors` transcribes are the ones the model was
  written against.  A change to any of them breaks this file; the check then searches for a failing input.
-/
namespace Jrpc.Facts

/-- `JSONRPCError.Error`: reserved-range codes are prefixed, others are the bare message. -/
theorem skel_JSONRPCError_Error_shape :
    Generated.skel_JSONRPCError_Error = [
  "if e.Code >= -32768 && e.Code <= -32000",
  "  return fmt.Sprintf(\"RPC error (%d): %s\", e.Code, e.Message)",
  "return e.Message"] := rfl

/-- `Errors.Register`: both directions of the registry, keyed by the dynamic type of the sample value. -/
theorem skel_Errors_Register_shape :
    Generated.skel_Errors_Register = [
  "rt := reflect.TypeOf(typ).Elem()",
  "if !rt.Implements(errorType)",
  "  panic(\"can't register non-error types\")",
  "e.byType[rt] = c",
  "e.byCode[c] = rt"] := rfl

/-- `NewErrors`: a registry that already maps the temporary connection error code to `*RPCConnectionError`. -/
theorem skel_NewErrors_shape :
    Generated.skel_NewErrors = [
  "return Errors{ byType: map[reflect.Type]ErrorCode{}, byCode: map[ErrorCode]reflect.Type{ -1111111: reflect.TypeOf(&RPCConnectionError{}), }, }"] := rfl

/-- `RPCConnectionError.Error`. -/
theorem skel_RPCConnectionError_Error_shape :
    Generated.skel_RPCConnectionError_Error = [
  "if e.err != nil",
  "  return e.err.Error()",
  "return \"RPCConnectionError\""] := rfl

/-- `RPCConnectionError.Unwrap`. -/
theorem skel_RPCConnectionError_Unwrap_shape :
    Generated.skel_RPCConnectionError_Unwrap = [
  "if e.err != nil",
  "  return e.err",
  "return errors.New(\"RPCConnectionError\")"] := rfl

/-- `ErrClient.Error`. -/
theorem skel_ErrClient_Error_shape :
    Generated.skel_ErrClient_Error = [
  "return fmt.Sprintf(\"RPC client error: %s\", e.err)"] := rfl

/-- `ErrClient.Unwrap`. -/
theorem skel_ErrClient_Unwrap_shape :
    Generated.skel_ErrClient_Unwrap = [
  "return e.err"] := rfl

/-- `WithErrors`: the client's registry. -/
theorem skel_WithErrors_shape :
    Generated.skel_WithErrors = [
  "return func{…}",
  "  c.errors = &es"] := rfl

/-- `WithServerErrors`: the server's registry. -/
theorem skel_WithServerErrors_shape :
    Generated.skel_WithServerErrors = [
  "return func{…}",
  "  c.errors = &es"] := rfl

end Jrpc.Facts

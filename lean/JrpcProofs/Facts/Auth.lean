import Jrpc.Auth
import Jrpc.Generated.Facts
/-
  Obligations over the regenerated facts: the statement skeletons (normalised control flow; log lines,
  comments and formatting removed) of the functions that `Jrpc.Auth` transcribes are the ones the model was
  written against.  A change to any of them breaks this file; the check then searches for a failing input.
-/
namespace Jrpc.Facts

/-- `HasPerm`: attached list if present (type assertion ok) else defaults; membership by equality. -/
theorem skel_auth_HasPerm_shape :
    Generated.skel_auth_HasPerm = [
  "callerPerms, ok := ctx.Value(permCtxKey).([]Permission)",
  "if !ok",
  "  callerPerms = defaultPerms",
  "range callerPerms",
  "  if callerPerm == perm",
  "    return true",
  "return false"] := rfl

/-- `WithPerm`. -/
theorem skel_auth_WithPerm_shape :
    Generated.skel_auth_WithPerm = [
  "return context.WithValue(ctx, permCtxKey, perms)"] := rfl

/-- `PermissionedProxy`: `HasPerm` guards the only call of the implementation; otherwise zero value and a permission error. -/
theorem skel_auth_PermissionedProxy_shape :
    Generated.skel_auth_PermissionedProxy = [
  "rint := reflect.ValueOf(out).Elem()",
  "ra := reflect.ValueOf(in)",
  "for f < rint.NumField()",
  "  field := rint.Type().Field(f)",
  "  requiredPerm := Permission(field.Tag.Get(\"perm\"))",
  "  if requiredPerm == \"\"",
  "    panic(\"missing 'perm' tag on \" + field.Name)",
  "  ok := false",
  "  range validPerms",
  "    if requiredPerm == perm",
  "      ok = true",
  "      break",
  "  if !ok",
  "    panic(\"unknown 'perm' tag on \" + field.Name)",
  "  fn := ra.MethodByName(field.Name)",
  "  rint.Field(f).Set(reflect.MakeFunc(field.Type, func{…}))",
  "    ctx := context.Background()",
  "    if len(args) > 0",
  "      if actx, ok := args[0].Interface().(context.Context); ok && actx != nil",
  "        ctx = actx",
  "    if HasPerm(ctx, defaultPerms, requiredPerm)",
  "      if field.Type.IsVariadic()",
  "        return fn.CallSlice(args)",
  "      return fn.Call(args)",
  "    err := xerrors.Errorf(\"missing permission to invoke '%s' (need '%s')\", field.Name, requiredPerm)",
  "    rerr := reflect.ValueOf(&err).Elem()",
  "    if field.Type.NumOut() == 2",
  "      return []reflect.Value{ reflect.Zero(field.Type.Out(0)), rerr, }",
  "    else",
  "      return []reflect.Value{rerr}"] := rfl

/-- `Handler.ServeHTTP`: header first, else token form value with the prefix added; non-empty token must carry the prefix; `Verify` error ↦ 401; otherwise `WithPerm` and `Next`. -/
theorem skel_auth_ServeHTTP_shape :
    Generated.skel_auth_ServeHTTP = [
  "ctx := r.Context()",
  "token := r.Header.Get(\"Authorization\")",
  "if token == \"\"",
  "  token = r.URL.Query().Get(\"token\")",
  "  if token != \"\"",
  "    token = \"Bearer \" + token",
  "if token != \"\"",
  "  if !strings.HasPrefix(token, \"Bearer \")",
  "    w.WriteHeader(401)",
  "    return",
  "  token = strings.TrimPrefix(token, \"Bearer \")",
  "  allow, err := h.Verify(ctx, token)",
  "  if err != nil",
  "    w.WriteHeader(401)",
  "    return",
  "  ctx = WithPerm(ctx, allow)",
  "h.Next(w, r.WithContext(ctx))"] := rfl

end Jrpc.Facts

import Jrpc.Errors
import Jrpc.Generated.Facts
/-
  Obligations over the regenerated facts: the statement skeletons (normalised control flow; log lines,
  comments and formatting removed) of the functions that `Jrpc.Errors` transcribes are the ones the model was
  written against.  A change to any of them breaks this file; the check then searches for a failing input.
-/
namespace Jrpc.Facts

/-- `createError`: code from byType (else 1); RPCErrorCodec first, then marshalable; a failing conversion keeps the plain error. -/
theorem skel_createError_shape :
    Generated.skel_createError = [
  "var code ErrorCode = 1",
  "if s.errors != nil",
  "  c, ok := s.errors.byType[reflect.TypeOf(err)]",
  "  if ok",
  "    code = c",
  "out := &JSONRPCError{ Code: code, Message: err.Error(), }",
  "typeswitch m := err.(type)",
  "  case RPCErrorCodec",
  "    o, err := m.ToJSONRPCError()",
  "    if err != nil",
  "    else",
  "      out = &o",
  "  case marshalable",
  "    meta, marshalErr := m.MarshalJSON()",
  "    if marshalErr == nil",
  "      out.Meta = meta",
  "    else",
  "return out"] := rfl

/-- `JSONRPCError.val`: byCode lookup; pointer to a fresh value; codec first, then meta via UnmarshalJSON; failure ↦ the generic error; value form dereferenced. -/
theorem skel_errorVal_shape :
    Generated.skel_errorVal = [
  "if errors != nil",
  "  t, ok := errors.byCode[e.Code]",
  "  if ok",
  "    var v reflect.Value",
  "    if t.Kind() == reflect.Ptr",
  "      v = reflect.New(t.Elem())",
  "    else",
  "      v = reflect.New(t)",
  "    if v.Type().Implements(errorCodecRT)",
  "      if err := v.Interface().(RPCErrorCodec).FromJSONRPCError(*e); err != nil",
  "        return reflect.ValueOf(e)",
  "    else if len(e.Meta) > 0 && v.Type().Implements(marshalableRT)",
  "      if err := v.Interface().(marshalable).UnmarshalJSON(e.Meta); err != nil",
  "        return reflect.ValueOf(e)",
  "    if t.Kind() != reflect.Ptr",
  "      v = v.Elem()",
  "    return v",
  "return reflect.ValueOf(e)"] := rfl

/-- `processResponse`: value slot as computed, error slot from `val` iff `resp.Error != nil`. -/
theorem skel_processResponse_shape :
    Generated.skel_processResponse = [
  "out := make([]reflect.Value, fn.nout)",
  "if fn.valOut != -1",
  "  out[fn.valOut] = rval",
  "if fn.errOut != -1",
  "  out[fn.errOut] = reflect.New(errorType).Elem()",
  "  if resp.Error != nil",
  "    out[fn.errOut].Set(resp.Error.val(fn.client.errors))",
  "return out"] := rfl

/-- `processError`: zero value plus `*ErrClient`. -/
theorem skel_processError_shape :
    Generated.skel_processError = [
  "out := make([]reflect.Value, fn.nout)",
  "if fn.valOut != -1",
  "  out[fn.valOut] = reflect.New(fn.ftyp.Out(fn.valOut)).Elem()",
  "if fn.errOut != -1",
  "  out[fn.errOut] = reflect.New(errorType).Elem()",
  "  out[fn.errOut].Set(reflect.ValueOf(&ErrClient{err}))",
  "return out"] := rfl

end Jrpc.Facts

import Jrpc.Backoff
import Jrpc.Generated.Facts
/-
  Obligations over the regenerated facts for `backoff.next` and its two users.
-/
namespace Jrpc.Facts
open Jrpc

/-- `backoff.next` is the computation `Jrpc.Backoff.next` transcribes: negative attempt ↦ minDelay;
    minf·1.5^attempt + jitter·minf; clamp against maxDelay in float64 BEFORE converting. -/
theorem backoff_next_shape :
    Generated.skel_backoff_next = [
      "if attempt < 0",
      "  return b.minDelay",
      "minf := float64(b.minDelay)",
      "durf := minf * math.Pow(1.5, float64(attempt))",
      "durf = durf + rand.Float64()*minf",
      "if durf > float64(b.maxDelay)",
      "  return b.maxDelay",
      "return time.Duration(durf)"] := rfl

/-- Defaults satisfy the hypotheses of `C05_backoff` / `C05_spacing`. -/
theorem backoff_defaults_ok :
    Generated.defaultReconnectMinDelay = some 100000000 ∧
    Generated.defaultReconnectMaxDelay = some 5000000000 ∧
    Generated.methodMinRetryDelay = some 100000000 ∧
    Generated.methodMaxRetryDelay = some 600000000000 := by decide

end Jrpc.Facts

import Jrpc.Stream
import Jrpc.Generated.Facts
/-
  Obligations over the regenerated facts: the statement skeletons (normalised control flow; log lines,
  comments and formatting removed) of the functions that `Jrpc.Stream` transcribes are the ones the model was
  written against.  A change to any of them breaks this file; the check then searches for a failing input.
-/
namespace Jrpc.Facts

/-- `handleOutChans`: a registration is answered (registration reply through `nextWriter`) before the channel joins the select set; values are forwarded one at a time with `sendRequest`; a closed handler channel is removed and announced with `xrpc.ch.close`. -/
theorem skel_handleOutChans_shape :
    Generated.skel_handleOutChans = [
  "regV := reflect.ValueOf(c.registerCh)",
  "exitV := reflect.ValueOf(c.exiting)",
  "cases := []reflect.SelectCase{ { Dir: reflect.SelectRecv, Chan: regV, }, { Dir: reflect.SelectRecv, Chan: exitV, }, }",
  "internal := len(cases)",
  "var caseToID []uint64",
  "for",
  "  chosen, val, ok := reflect.Select(cases)",
  "  switch chosen",
  "    case 0",
  "      if !ok",
  "        return",
  "      registration := val.Interface().(outChanReg)",
  "      caseToID = append(caseToID, registration.chID)",
  "      cases = append(cases, reflect.SelectCase{ Dir: reflect.SelectRecv, Chan: registration.ch, })",
  "      c.nextWriter(registration.epoch, func{…})",
  "        resp := &response{ Jsonrpc: \"2.0\", ID: registration.reqID, Result: registration.chID, }",
  "        if err := json.NewEncoder(w).Encode(resp); err != nil",
  "          return",
  "      continue",
  "    case 1",
  "      if !ok",
  "        return",
  "      continue",
  "  if !ok",
  "    id := caseToID[chosen-internal]",
  "    n := len(cases) - 1",
  "    if n > 0",
  "      cases[chosen] = cases[n]",
  "      caseToID[chosen-internal] = caseToID[n-internal]",
  "    cases = cases[:n]",
  "    caseToID = caseToID[:n-internal]",
  "    rp, err := json.Marshal([]param{{v: reflect.ValueOf(id)}})",
  "    if err != nil",
  "      continue",
  "    if err := c.sendRequest(request{ Jsonrpc: \"2.0\", ID: nil, Method: chClose, Params: rp, }); err != nil",
  "    continue",
  "  rp, err := json.Marshal([]param{{v: reflect.ValueOf(caseToID[chosen-internal])}, {v: val}})",
  "  if err != nil",
  "    continue",
  "  if err := c.sendRequest(request{ Jsonrpc: \"2.0\", ID: nil, Method: chValue, Params: rp, }); err != nil",
  "    continue"] := rfl

/-- `makeOutChan`: the sink callback (close ↦ `close(incoming)`; value ↦ unmarshal, discard if the context is cancelled, else send into `incoming` or discard on cancel) and the buffer goroutine (select over context, `incoming`, and the send of the list head; closes the caller channel on cancel or when `incoming` is closed and the list is empty). -/
theorem skel_makeOutChan_shape :
    Generated.skel_makeOutChan = [
  "if ctx == nil",
  "  ctx = context.Background()",
  "retVal := reflect.Zero(ftyp.Out(valOut))",
  "// retVal is written by the frame executor (chCtor) and read by the calling goroutine, which may // have been woken by closeInFlight rather than by the executor var retLk sync.Mutex",
  "chCtor := func{…}",
  "  ctyp := reflect.ChanOf(reflect.BothDir, ftyp.Out(valOut).Elem())",
  "  ch := reflect.MakeChan(ctyp, 0)",
  "  retLk.Lock()",
  "  retVal = ch.Convert(ftyp.Out(valOut))",
  "  retLk.Unlock()",
  "  incoming := make(chan reflect.Value, 32)",
  "  go func{…}()",
  "    buf := (&list.List{}).Init()",
  "    for",
  "      front := buf.Front()",
  "      cases := []reflect.SelectCase{ { Dir: reflect.SelectRecv, Chan: reflect.ValueOf(ctx.Done()), }, { Dir: reflect.SelectRecv, Chan: reflect.ValueOf(incoming), }, }",
  "      if front != nil",
  "        cases = append(cases, reflect.SelectCase{ Dir: reflect.SelectSend, Chan: ch, Send: front.Value.(reflect.Value).Elem(), })",
  "      chosen, val, ok := reflect.Select(cases)",
  "      switch chosen",
  "        case 0",
  "          ch.Close()",
  "          return",
  "        case 1",
  "          if ok",
  "            vvval := val.Interface().(reflect.Value)",
  "            buf.PushBack(vvval)",
  "            if buf.Len() > 1",
  "              if buf.Len() > 10",
  "              else",
  "          else",
  "            incoming = nil",
  "        case 2",
  "          buf.Remove(front)",
  "      if incoming == nil && buf.Len() == 0",
  "        ch.Close()",
  "        return",
  "  return ctx, func{…}",
  "    if !ok",
  "      close(incoming)",
  "      return",
  "    val := reflect.New(ftyp.Out(valOut).Elem())",
  "    if err := json.Unmarshal(result, val.Interface()); err != nil",
  "      return",
  "    if ctx.Err() != nil",
  "      return",
  "    select",
  "      case incoming <- val",
  "      case <-ctx.Done()",
  "return func{…}, chCtor",
  "  retLk.Lock()",
  "  defer retLk.Unlock()",
  "  return retVal"] := rfl

/-- `closeChans`: every sink is removed from the table before its close callback runs, under the handler lock. -/
theorem skel_closeChans_shape :
    Generated.skel_closeChans = [
  "c.chanHandlersLk.Lock()",
  "defer c.chanHandlersLk.Unlock()",
  "range c.chanHandlers",
  "  hnd := c.chanHandlers[chid]",
  "  hnd.lk.Lock()",
  "  delete(c.chanHandlers, chid)",
  "  c.chanHandlersLk.Unlock()",
  "  hnd.cb(nil, false)",
  "  hnd.lk.Unlock()",
  "  c.chanHandlersLk.Lock()"] := rfl

/-- `handleChanOut`: registration through `registerCh` or failure once the connection is exiting. -/
theorem skel_handleChanOut_shape :
    Generated.skel_handleChanOut = [
  "c.spawnOutChanHandlerOnce.Do(func{…})",
  "  go c.handleOutChans()",
  "id := atomic.AddUint64(&c.chanCtr, 1)",
  "select",
  "  case c.registerCh <- outChanReg{ reqID: req, epoch: epoch, chID: id, ch: ch, }",
  "    return nil",
  "  case <-c.exiting",
  "    return xerrors.New(\"connection closing\")"] := rfl

end Jrpc.Facts

import Jrpc.Reader
import Jrpc.Generated.Facts
/-
  Obligations over the regenerated facts: the statement skeletons (normalised control flow; log lines,
  comments and formatting removed) of the functions that `Jrpc.Reader` transcribes are the ones the model was
  written against.  A change to any of them breaks this file; the check then searches for a failing input.
-/
namespace Jrpc.Facts

/-- `waitReadCloser.Read`: sticky first error; body read; on error remember it and close `wait` once. -/
theorem skel_httpio_wrcRead_shape :
    Generated.skel_httpio_wrcRead = [
  "if w.err != nil",
  "  return 0, w.err",
  "n, err := w.ReadCloser.Read(p)",
  "if err != nil",
  "  w.err = err",
  "  w.closeWait.Do(func{…})",
  "    close(w.wait)",
  "return n, err"] := rfl

/-- `waitReadCloser.Close`: close `wait` once, then close the body. -/
theorem skel_httpio_wrcClose_shape :
    Generated.skel_httpio_wrcClose = [
  "w.closeWait.Do(func{…})",
  "  close(w.wait)",
  "return w.ReadCloser.Close()"] := rfl

/-- `ReaderParamDecoder`: both the push handler and the param decoder find-or-create the per-uuid unbuffered channel under `readersLk`; the handler offers its body and then waits for `wait`; the decoder receives. -/
theorem skel_httpio_ReaderParamDecoder_shape :
    Generated.skel_httpio_ReaderParamDecoder = [
  "var readersLk sync.Mutex",
  "readers := map[uuid.UUID]chan *waitReadCloser{}",
  "hnd := func{…}",
  "  strId := path.Base(req.URL.Path)",
  "  u, err := uuid.Parse(strId)",
  "  if err != nil",
  "    http.Error(resp, fmt.Sprintf(\"parsing reader uuid: %s\", err), 400)",
  "  readersLk.Lock()",
  "  ch, found := readers[u]",
  "  if !found",
  "    ch = make(chan *waitReadCloser)",
  "    readers[u] = ch",
  "  readersLk.Unlock()",
  "  wr := &waitReadCloser{ ReadCloser: req.Body, wait: make(chan struct{}), }",
  "  select",
  "    case ch <- wr",
  "    case <-req.Context().Done()",
  "      resp.WriteHeader(500)",
  "      return",
  "  select",
  "    case <-wr.wait",
  "    case <-req.Context().Done()",
  "      resp.WriteHeader(500)",
  "      return",
  "  resp.WriteHeader(200)",
  "dec := jsonrpc.WithParamDecoder(new(io.Reader), func{…})",
  "  var strId string",
  "  if err := json.Unmarshal(b, &strId); err != nil",
  "    return reflect.Value{}, xerrors.Errorf(\"unmarshaling reader id: %w\", err)",
  "  u, err := uuid.Parse(strId)",
  "  if err != nil",
  "    return reflect.Value{}, xerrors.Errorf(\"parsing reader UUDD: %w\", err)",
  "  readersLk.Lock()",
  "  ch, found := readers[u]",
  "  if !found",
  "    ch = make(chan *waitReadCloser)",
  "    readers[u] = ch",
  "  readersLk.Unlock()",
  "  select",
  "    case wr := <-ch",
  "      return reflect.ValueOf(wr), nil",
  "    case <-ctx.Done()",
  "      return reflect.Value{}, ctx.Err()",
  "return hnd, dec"] := rfl

/-- `ReaderParamEncoder`: a fresh uuid per reader, upload in the background, the uuid as the encoded param. -/
theorem skel_httpio_ReaderParamEncoder_shape :
    Generated.skel_httpio_ReaderParamEncoder = [
  "return jsonrpc.WithParamEncoder(new(io.Reader), func{…})",
  "  r := value.Interface().(io.Reader)",
  "  reqID := uuid.New()",
  "  u, _ := url.Parse(addr)",
  "  u.Path = path.Join(u.Path, reqID.String())",
  "  go func{…}()",
  "    resp, err := http.Post(u.String(), \"application/octet-stream\", r)",
  "    if err != nil",
  "      return",
  "    defer resp.Body.Close()",
  "    if resp.StatusCode != 200",
  "      return",
  "  return reflect.ValueOf(reqID), nil"] := rfl

end Jrpc.Facts

import Jrpc.Call
import Jrpc.Generated.Facts
/-
  Obligations over the regenerated facts: the statement skeletons (normalised control flow; log lines,
  comments and formatting removed) of the functions that `Jrpc.Call` transcribes are the ones the model was
  written against.  A change to any of them breaks this file; the check then searches for a failing input.
-/
namespace Jrpc.Facts

/-- `httpClient`: one POST per call; for id-bearing requests the response is decoded, its id normalised and compared with the request id; the closer only closes its own stop channel. -/
theorem skel_httpClient_shape :
    Generated.skel_httpClient = [
  "c := client{ namespace: namespace, paramEncoders: config.paramEncoders, errors: config.errors, methodNameFormatter: config.methodNamer, }",
  "stop := make(chan struct{})",
  "c.exiting = stop",
  "if requestHeader == nil",
  "  requestHeader = http.Header{}",
  "c.doRequest = func{…}",
  "  b, err := json.Marshal(&cr.req)",
  "  if err != nil",
  "    return clientResponse{}, xerrors.Errorf(\"marshalling request: %w\", err)",
  "  hreq, err := http.NewRequest(\"POST\", addr, bytes.NewReader(b))",
  "  if err != nil",
  "    return clientResponse{}, &RPCConnectionError{err}",
  "  hreq.Header = requestHeader.Clone()",
  "  if ctx != nil",
  "    hreq = hreq.WithContext(ctx)",
  "  hreq.Header.Set(\"Content-Type\", \"application/json\")",
  "  httpResp, err := config.httpClient.Do(hreq)",
  "  if err != nil",
  "    return clientResponse{}, &RPCConnectionError{err}",
  "  if httpResp.StatusCode > http.StatusBadRequest && httpResp.StatusCode != http.StatusInternalServerError",
  "    return clientResponse{}, xerrors.Errorf(\"request failed, http status %s\", httpResp.Status)",
  "  defer httpResp.Body.Close()",
  "  var resp clientResponse",
  "  if cr.req.ID != nil",
  "    if err := json.NewDecoder(httpResp.Body).Decode(&resp); err != nil",
  "      return clientResponse{}, xerrors.Errorf(\"http status %s unmarshaling response: %w\", httpResp.Status, err)",
  "    if resp.ID, err = normalizeID(resp.ID); err != nil",
  "      return clientResponse{}, xerrors.Errorf(\"failed to response ID: %w\", err)",
  "    if resp.ID != cr.req.ID",
  "      return clientResponse{}, xerrors.New(\"request and response id didn't match\")",
  "  return resp, nil",
  "if err := c.provide(outs); err != nil",
  "  return nil, err",
  "return func{…}, nil",
  "  close(stop)"] := rfl

/-- `NewCustomClient`: one `doRequest` per call with the same response-id check; the closer only closes its own stop channel. -/
theorem skel_NewCustomClient_shape :
    Generated.skel_NewCustomClient = [
  "config := defaultConfig()",
  "range opts",
  "  o(&config)",
  "c := client{ namespace: namespace, paramEncoders: config.paramEncoders, errors: config.errors, methodNameFormatter: config.methodNamer, }",
  "stop := make(chan struct{})",
  "c.exiting = stop",
  "c.doRequest = func{…}",
  "  b, err := json.Marshal(&cr.req)",
  "  if err != nil",
  "    return clientResponse{}, xerrors.Errorf(\"marshalling request: %w\", err)",
  "  if ctx == nil",
  "    ctx = context.Background()",
  "  rawResp, err := doRequest(ctx, b)",
  "  if err != nil",
  "    return clientResponse{}, xerrors.Errorf(\"doRequest failed: %w\", err)",
  "  defer rawResp.Close()",
  "  var resp clientResponse",
  "  if cr.req.ID != nil",
  "    if err := json.NewDecoder(rawResp).Decode(&resp); err != nil",
  "      return clientResponse{}, xerrors.Errorf(\"unmarshaling response: %w\", err)",
  "    if resp.ID, err = normalizeID(resp.ID); err != nil",
  "      return clientResponse{}, xerrors.Errorf(\"failed to response ID: %w\", err)",
  "    if resp.ID != cr.req.ID",
  "      return clientResponse{}, xerrors.New(\"request and response id didn't match\")",
  "  return resp, nil",
  "if err := c.provide(outs); err != nil",
  "  return nil, err",
  "return func{…}, nil",
  "  close(stop)"] := rfl

/-- `NewMergeClient`: option application and transport selection by URL scheme. -/
theorem skel_NewMergeClient_shape :
    Generated.skel_NewMergeClient = [
  "config := defaultConfig()",
  "range opts",
  "  o(&config)",
  "u, err := url.Parse(addr)",
  "if err != nil",
  "  return nil, xerrors.Errorf(\"parsing address: %w\", err)",
  "switch u.Scheme",
  "  case \"ws\", \"wss\"",
  "    return websocketClient(ctx, addr, namespace, outs, requestHeader, config)",
  "  case \"http\", \"https\"",
  "    return httpClient(ctx, addr, namespace, outs, requestHeader, config)",
  "  default",
  "    return nil, xerrors.Errorf(\"unknown url scheme '%s'\", u.Scheme)"] := rfl

/-- `NewClient`: `NewMergeClient` with one output struct. -/
theorem skel_NewClient_shape :
    Generated.skel_NewClient = [
  "return NewMergeClient(ctx, addr, namespace, []interface{}{handler}, requestHeader)"] := rfl

/-- `client.sendRequest`: one attempt through the transport's `doRequest` with a fresh ready channel. -/
theorem skel_clientSendRequest_shape :
    Generated.skel_clientSendRequest = [
  "creq := clientRequest{ req: req, ready: make(chan clientResponse, 1), retCh: chCtor, }",
  "return c.doRequest(ctx, creq)"] := rfl

/-- `client.provide`: one proxy function per exported func field of each output struct. -/
theorem skel_clientProvide_shape :
    Generated.skel_clientProvide = [
  "range outs",
  "  htyp := reflect.TypeOf(handler)",
  "  if htyp.Kind() != reflect.Ptr",
  "    return xerrors.New(\"expected handler to be a pointer\")",
  "  typ := htyp.Elem()",
  "  if typ.Kind() != reflect.Struct",
  "    return xerrors.New(\"handler should be a struct\")",
  "  val := reflect.ValueOf(handler)",
  "  for i < typ.NumField()",
  "    fn, err := c.makeRpcFunc(typ.Field(i))",
  "    if err != nil",
  "      return err",
  "    val.Elem().Field(i).Set(fn)",
  "return nil"] := rfl

end Jrpc.Facts

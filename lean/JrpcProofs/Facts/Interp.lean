import Jrpc.Base
import Jrpc.Frames
import Jrpc.Redial
import Jrpc.Generated.Facts
/-
  Interpreted facts: three small tables that the extractor reads off the Go source are given a meaning
  here (an interpreter over the regenerated data), and the hand-written model is proved equal to that
  meaning for *all* inputs — so these obligations are not comparisons of strings with expected strings,
  they are theorems about what the regenerated table computes.

    * `normalizeID`'s type switch            vs `Jrpc.normalizeID`
    * `handleFrame`'s switch on the method   vs the dispatch chain of `Jrpc.execFrame`
    * the retry condition of `handleRpcCall` vs the continue condition of `Jrpc.Redial.retryLoop`
-/
namespace Jrpc.Facts
open Jrpc

/-! ### normalizeID -/

/-- Dynamic Go type of an id after `encoding/json` decoded it into `interface{}` (or the client's counter). -/
inductive GoDyn where
  | string | float64 | nil | int64 | other
  deriving Repr, DecidableEq

def dynOf : WireId → GoDyn
  | .absent | .null => .nil
  | .num _ => .float64
  | .int64 _ => .int64
  | .str _ => .string
  | .invalid _ => .other

def GoDyn.name : GoDyn → String
  | .string => "string" | .float64 => "float64" | .nil => "nil" | .int64 => "int64" | .other => "?"

/-- What an arm of the switch does, read off its return statement. -/
inductive ArmResult where
  | pass | toFloat | reject | unknown
  deriving Repr, DecidableEq

def armResult (ret : String) : ArmResult :=
  if ret = "v | err=false" then .pass
  else if ret = "float64(v) | err=false" then .toFloat
  else if ret = "nil | err=true" then .reject
  else .unknown

/-- The arm a value of dynamic type `t` takes: the first `case` listing its type, else `default`. -/
def armFor (arms : List (List String × String)) (t : GoDyn) : ArmResult :=
  match arms.find? (fun a => a.1.contains t.name) with
  | some a => armResult a.2
  | none => match arms.find? (fun a => a.1.contains "default") with
    | some a => armResult a.2
    | none => .unknown

/-- The regenerated type switch computes exactly `Jrpc.normalizeID`: it rejects an id iff the model does,
    converts exactly the int64 counter, and passes everything else through unchanged. -/
theorem normalizeID_interpreted (w : WireId) :
    (armFor Generated.normalizeIDArmTypes (dynOf w) = .reject ↔ normalizeID w = none) ∧
    (armFor Generated.normalizeIDArmTypes (dynOf w) = .toFloat ↔ ∃ n, w = .int64 n) ∧
    armFor Generated.normalizeIDArmTypes (dynOf w) ≠ .unknown := by
  cases w <;> refine ⟨?_, ?_, ?_⟩ <;> simp [dynOf, normalizeID] <;> decide

/-! ### handleFrame -/

/-- The function `handleFrame` calls for a frame whose method member is `m`, by the regenerated table. -/
def dispatchOf (table : List (String × String)) (m : String) : Option String :=
  match table.lookup m with
  | some f => some f
  | none => table.lookup "default"

/-- The branch `Jrpc.execFrame` takes for a decodable frame with a normalisable id. -/
def modelTarget (m : String) : String :=
  if m = "" then "c.handleResponse"
  else if m = "xrpc.cancel" then "c.cancelCtx"
  else if m = "xrpc.ch.val" then "c.handleChanMessage"
  else if m = "xrpc.ch.close" then "c.handleChanClose"
  else "c.handleCall"

/-- For every method string (not just the five listed) the regenerated switch and the model's chain agree —
    provided no user method is literally called "default", the label the extractor gives the default arm. -/
theorem handleFrame_interpreted (m : String) (hm : m ≠ "default") :
    dispatchOf Generated.handleFrameTable m = some (modelTarget m) := by
  unfold dispatchOf modelTarget Generated.handleFrameTable
  by_cases h1 : m = ""
  · subst h1; decide
  by_cases h2 : m = "xrpc.cancel"
  · subst h2; decide
  by_cases h3 : m = "xrpc.ch.val"
  · subst h3; decide
  by_cases h4 : m = "xrpc.ch.close"
  · subst h4; decide
  have e1 : (m == "") = false := by simpa using h1
  have e2 : (m == "xrpc.cancel") = false := by simpa using h2
  have e3 : (m == "xrpc.ch.val") = false := by simpa using h3
  have e4 : (m == "xrpc.ch.close") = false := by simpa using h4
  have e5 : (m == "default") = false := by simpa using hm
  simp [List.lookup, e1, e2, e3, e4, e5, h1, h2, h3, h4]

/-- … and `execFrame` really is that chain: the model starts a remote call exactly for the methods the
    table sends to `handleCall`. -/
theorem execFrame_calls_iff (h : Handler) (s : ExecState) (f : FrameIn) (id : NId)
    (hd : f.decodable = true) (hid : normalizeID f.id = some id) (hh : s.hasHandler = true) :
    modelTarget f.method = "c.handleCall" →
    ∃ s', execFrame h s f = .ok s' ∧ s'.spawned.length = s.spawned.length + 1 := by
  intro ht
  unfold modelTarget at ht
  by_cases h1 : f.method = ""
  · simp [h1] at ht
  by_cases h2 : f.method = "xrpc.cancel"
  · simp [h1, h2] at ht
  by_cases h3 : f.method = "xrpc.ch.val"
  · simp [h1, h2, h3] at ht
  by_cases h4 : f.method = "xrpc.ch.close"
  · simp [h1, h2, h3, h4] at ht
  simp [execFrame, hd, hid, h1, h2, h3, h4, hh, wsCall]

/-! ### the retry condition -/

structure RetryEnv where
  retry   : Bool     -- the function carries the retry tag
  hasErr  : Bool     -- resp.Error != nil
  isTemp  : Bool     -- resp.Error.Code == eTempWSError
  deriving Repr, DecidableEq

def conjunct (e : RetryEnv) (c : String) : Option Bool :=
  if c = "fn.retry" then some e.retry
  else if c = "resp.Error != nil" then some e.hasErr
  else if c = "resp.Error.Code == eTempWSError" then some e.isTemp
  else none

def evalConj (cs : List String) (e : RetryEnv) : Option Bool :=
  cs.foldl (fun acc c => match acc, conjunct e c with
    | some a, some b => some (a && b)
    | _, _ => none) (some true)

/-- The regenerated retry condition of `handleRpcCall` is: retry tag ∧ an error ∧ the temporary
    connection error code — nothing else re-sends a request. -/
theorem retry_condition_interpreted (e : RetryEnv) :
    evalConj Generated.retryConjuncts e = some (e.retry && e.hasErr && e.isTemp) := by
  cases e with
  | mk r h t => cases r <;> cases h <;> cases t <;> decide

/-- … which is the continue condition of the model's retry loop (an attempt that ended in the temporary
    connection error, on a retry-tagged function). -/
theorem retryLoop_continues_iff (retry : Bool) (a : Redial.Attempt) (rest : List Redial.Attempt) :
    (Redial.retryLoop retry (a :: rest) = (Redial.retryLoop retry rest).map (fun p => (p.1, p.2 + 1)) ∧ a = .connErr ∧ retry = true)
    ∨ Redial.retryLoop retry (a :: rest) = some (a, 1) := by
  cases a <;> cases retry <;> simp [Redial.retryLoop]

/-- The id counter is bumped once per call, outside the retry loop: every attempt of a call carries the same id. -/
theorem id_counter_once : Generated.idCounterBumps = some 1 ∧ Generated.idCounterBumpedInsideRetryLoop = false := by decide

end Jrpc.Facts

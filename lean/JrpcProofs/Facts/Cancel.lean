import Jrpc.Cancel
import Jrpc.Generated.Facts
/-
  Obligations over the regenerated facts: the statement skeletons (normalised control flow; log lines,
  comments and formatting removed) of the functions that `Jrpc.Cancel` transcribes are the ones the model was
  written against.  A change to any of them breaks this file; the check then searches for a failing input.
-/
namespace Jrpc.Facts

/-- `handleCall`: the handler context derives from the connection context; id-bearing calls register their cancel function in `handling` and their `done(keepctx)` cancels and removes it unless the context is kept; notifications write to the discard writer. -/
theorem skel_handleCall_shape :
    Generated.skel_handleCall = [
  "if c.handler == nil",
  "  if frame.ID != nil",
  "    rpcError(func{…}, &request{Jsonrpc: frame.Jsonrpc, ID: frame.ID, Method: frame.Method}, rpcMethodNotFound, fmt.Errorf(\"method '%s' not found\", frame.Method))",
  "      c.nextWriter(epoch, cb)",
  "  return",
  "req := request{ Jsonrpc: frame.Jsonrpc, ID: frame.ID, Meta: frame.Meta, Method: frame.Method, Params: frame.Params, }",
  "ctx, cancel := context.WithCancel(ctx)",
  "nextWriter := func{…}",
  "  cb(io.Discard)",
  "done := func{…}",
  "  if !keepCtx",
  "    cancel()",
  "if frame.ID != nil",
  "  nextWriter = func{…}",
  "    c.nextWriter(epoch, cb)",
  "  c.handlingLk.Lock()",
  "  if atomic.LoadUint64(&c.connEpoch) == epoch",
  "    c.handling[frame.ID] = cancel",
  "  else",
  "    cancel()",
  "  c.handlingLk.Unlock()",
  "  done = func{…}",
  "    c.handlingLk.Lock()",
  "    defer c.handlingLk.Unlock()",
  "    if !keepctx",
  "      cancel()",
  "      if atomic.LoadUint64(&c.connEpoch) == epoch",
  "        delete(c.handling, frame.ID)",
  "chOut := func{…}",
  "  return c.handleChanOut(epoch, ch, id)",
  "go c.handler.handle(ctx, req, nextWriter, rpcError, done, chOut)"] := rfl

/-- `handleCtxAsync`: when the subscription context is done, one `xrpc.cancel [id]` with the subscribing call's id is written. -/
theorem skel_handleCtxAsync_shape :
    Generated.skel_handleCtxAsync = [
  "select",
  "  case <-actx.Done()",
  "  case <-c.exiting",
  "    return",
  "rp, err := json.Marshal([]param{{v: reflect.ValueOf(id)}})",
  "if err != nil",
  "  return",
  "if err := c.sendRequest(request{ Jsonrpc: \"2.0\", Method: wsCancel, Params: rp, }); err != nil"] := rfl

/-- `withLazyWriter`. -/
theorem skel_withLazyWriter_shape :
    Generated.skel_withLazyWriter = [
  "lw := &lazyWriter{ withWriterFunc: withWriterFunc, done: make(chan struct{}), }",
  "defer close(lw.done)",
  "cb(lw)"] := rfl

/-- `lazyWriter.Write`: the first write acquires the writer in a goroutine; if no writer could be acquired the waiting write is released with a failing writer. -/
theorem skel_lazyWriter_Write_shape :
    Generated.skel_lazyWriter_Write = [
  "if lw.w == nil",
  "  acquired := make(chan struct{})",
  "  go func{…}()",
  "    lw.withWriterFunc(func{…})",
  "      lw.w = w",
  "      close(acquired)",
  "      <-lw.done",
  "    select",
  "      case <-acquired",
  "      default",
  "        lw.w = failedWriter{}",
  "        close(acquired)",
  "  <-acquired",
  "return lw.w.Write(p)"] := rfl

/-- `nextWriter`: write lock; `NextWriter` failure ↦ return without calling back. -/
theorem skel_nextWriter_shape :
    Generated.skel_nextWriter = [
  "c.writeLk.Lock()",
  "defer c.writeLk.Unlock()",
  "if atomic.LoadUint64(&c.connEpoch) != epoch",
  "  cb(io.Discard)",
  "  return",
  "wcl, err := c.conn.NextWriter(websocket.TextMessage)",
  "if err != nil",
  "  return",
  "cb(wcl)",
  "if err := wcl.Close(); err != nil",
  "  return"] := rfl

/-- `setupPings`: ping and pong handlers feed `pongs`; the pinger goroutine stops with `stopPings`. -/
theorem skel_setupPings_shape :
    Generated.skel_setupPings = [
  "if c.pingInterval == 0",
  "  return func{…}",
  "c.conn.SetPongHandler(func{…})",
  "  select",
  "    case c.pongs <- struct{}{}",
  "    default",
  "  return nil",
  "conn := c.conn",
  "c.conn.SetPingHandler(func{…})",
  "  select",
  "    case c.pongs <- struct{}{}",
  "    default",
  "  err := conn.WriteControl(websocket.PongMessage, []byte(appData), time.Now().Add(time.Second))",
  "  if err == websocket.ErrCloseSent",
  "    return nil",
  "  else if ok && e.Timeout()",
  "    return nil",
  "  return err",
  "stop := make(chan struct{})",
  "go func{…}()",
  "  for",
  "    select",
  "      case <-time.After(c.pingInterval)",
  "        c.writeLk.Lock()",
  "        if err := c.conn.WriteMessage(websocket.PingMessage, []byte{}); err != nil",
  "        c.writeLk.Unlock()",
  "      case <-stop",
  "        return",
  "var o sync.Once",
  "return func{…}",
  "  o.Do(func{…})",
  "    close(stop)"] := rfl

end Jrpc.Facts

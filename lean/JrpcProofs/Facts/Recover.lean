import Jrpc.Generated.Facts
/-
  Obligations over the regenerated facts: `doCall` recovers, and handler functions are invoked only
  through it — the code-side reason why `Handler.handle` may model a panic as an error outcome.
-/
namespace Jrpc.Facts

theorem doCall_recovers : Generated.doCallDefersRecover = true := by decide

/-- the reflective calls (`CallSlice` for a variadic method, `Call` otherwise) sit after the deferred recover, and
    they are the only ones in `doCall` -/
theorem doCall_call_after_defer :
    Generated.doCallReflectCalls = ["f.CallSlice afterDefer=true", "f.Call afterDefer=true"] := by decide

/-- `handlerFunc` is only ever passed to `doCall` (or asked for its type) -/
theorem handlerFunc_only_via_doCall :
    Generated.handlerFuncUses = ["handler.handle: arg-of doCall", "handler.handle: method Type"] := by decide

/-- no other reflective `.Call(` exists in package jsonrpc -/
theorem no_reflect_call_elsewhere : Generated.reflectCallsOutsideDoCall = [] := by decide

end Jrpc.Facts

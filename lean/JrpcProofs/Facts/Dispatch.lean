import Jrpc.Dispatch
import Jrpc.Generated.Facts
/-
  Obligations over the regenerated facts: `handler.handle` looks names up in the order the model's
  `Handler.resolve` does, every gate precedes `doCall`, and the built-in formatter is `Fmt.apply`.
-/
namespace Jrpc.Facts
open Jrpc

/-- direct map, then alias map, then the method map again with the alias target (single hop). -/
theorem handle_lookup_order :
    Generated.handleLookups =
      ["s.methods[req.Method]", "s.aliasedMethods[req.Method]", "s.methods[aliasTo]"] := by decide

/-- Everything that can reject a request sits before `doCall` in `handle`, in the order the model's
    `gate` evaluates it: param array decode, arity, per-param decode. -/
theorem handle_gates_before_call :
    Generated.handleMilestones =
      ["rpcError rpcMethodNotFound", "rpcError rpcMethodNotFound", "json.Unmarshal req.Params",
       "rpcError rpcParseError", "arity len(ps) != handler.nParams", "rpcError rpcInvalidParams",
       "Decode param", "rpcError rpcParseError", "paramDecoder", "rpcError rpcParseError",
       "doCall", "rpcError 0", "chOut", "respond"] := by decide

theorem formatter_shape :
    Generated.formatterReturns = ["namespace + \".\" + formattedMethod", "formattedMethod"] ∧
    -- the first *letter* (rune), as `Fmt.apply` lower-cases the first `Char` of the name (before F29: the first byte)
    Generated.formatterLowerExpr = some "string(unicode.ToLower(r)) + method[size:]" := by decide

end Jrpc.Facts

import Jrpc.Backoff
import Jrpc.Generated.Facts
/-
  Obligations over the regenerated facts: the statement skeletons (normalised control flow; log lines,
  comments and formatting removed) of the functions that `Jrpc.Backoff` transcribes are the ones the model was
  written against.  A change to any of them breaks this file; the check then searches for a failing input.
-/
namespace Jrpc.Facts

/-- `defaultConfig`: reconnect backoff, ping interval, timeout and formatter defaults of a client. -/
theorem skel_defaultConfig_shape :
    Generated.skel_defaultConfig = [
  "return Config{ reconnectBackoff: backoff{ minDelay: 100 * time.Millisecond, maxDelay: 5 * time.Second, }, pingInterval: 5 * time.Second, timeout: 30 * time.Second, aliasedHandlerMethods: map[string]string{}, paramEncoders: map[reflect.Type]ParamEncoder{}, httpClient: _defaultHTTPClient, methodNamer: DefaultMethodNameFormatter, }"] := rfl

/-- `WithReconnectBackoff`: min and max delay of the redial loop. -/
theorem skel_WithReconnectBackoff_shape :
    Generated.skel_WithReconnectBackoff = [
  "return func{…}",
  "  if minDelay <= 0",
  "    minDelay = 100 * time.Millisecond",
  "  if maxDelay <= 0",
  "    maxDelay = 5 * time.Second",
  "  if maxDelay < minDelay",
  "    maxDelay = minDelay",
  "  c.reconnectBackoff = backoff{ minDelay: minDelay, maxDelay: maxDelay, }"] := rfl

/-- `WithPingInterval`. -/
theorem skel_WithPingInterval_shape :
    Generated.skel_WithPingInterval = [
  "return func{…}",
  "  c.pingInterval = d"] := rfl

/-- `WithTimeout`. -/
theorem skel_WithTimeout_shape :
    Generated.skel_WithTimeout = [
  "return func{…}",
  "  c.timeout = d"] := rfl

/-- `WithNoReconnect`: the flag that makes `websocketClient` drop the dial factory. -/
theorem skel_WithNoReconnect_shape :
    Generated.skel_WithNoReconnect = [
  "return func{…}",
  "  c.noReconnect = true"] := rfl

/-- `defaultServerConfig`: max request size, ping interval and formatter defaults of a server. -/
theorem skel_defaultServerConfig_shape :
    Generated.skel_defaultServerConfig = [
  "return ServerConfig{ paramDecoders: map[reflect.Type]ParamDecoder{}, maxRequestSize: DEFAULT_MAX_REQUEST_SIZE, pingInterval: 5 * time.Second, methodNameFormatter: DefaultMethodNameFormatter, }"] := rfl

/-- `WithServerPingInterval`. -/
theorem skel_WithServerPingInterval_shape :
    Generated.skel_WithServerPingInterval = [
  "return func{…}",
  "  c.pingInterval = d"] := rfl

end Jrpc.Facts

import Jrpc.Dispatch
import Jrpc.Generated.Facts
/-
  Obligations over the regenerated facts: the statement skeletons (normalised control flow; log lines,
  comments and formatting removed) of the functions that `Jrpc.Dispatch` transcribes are the ones the model was
  written against.  A change to any of them breaks this file; the check then searches for a failing input.
-/
namespace Jrpc.Facts

/-- `NewServer`: option application, handler table construction. -/
theorem skel_NewServer_shape :
    Generated.skel_NewServer = [
  "config := defaultServerConfig()",
  "range opts",
  "  o(&config)",
  "return &RPCServer{ handler: makeHandler(config), reverseClientBuilder: config.reverseClientBuilder, pingInterval: config.pingInterval, }"] := rfl

/-- `makeHandler`: empty method and alias tables, configuration copied from the server options. -/
theorem skel_makeHandler_shape :
    Generated.skel_makeHandler = [
  "return &handler{ methods: make(map[string]methodHandler), errors: sc.errors, aliasedMethods: map[string]string{}, paramDecoders: sc.paramDecoders, methodNameFormatter: sc.methodNameFormatter, maxRequestSize: sc.maxRequestSize, tracer: sc.tracer, }"] := rfl

/-- `RPCServer.Register`. -/
theorem skel_RPCServer_Register_shape :
    Generated.skel_RPCServer_Register = [
  "s.register(namespace, handler)"] := rfl

/-- `RPCServer.AliasMethod`: one entry of the alias table. -/
theorem skel_RPCServer_AliasMethod_shape :
    Generated.skel_RPCServer_AliasMethod = [
  "s.aliasedMethods[alias] = original"] := rfl

/-- `NewMethodNameFormatter`: optional lower-casing of the first byte, optional namespace prefix with a dot. -/
theorem skel_NewMethodNameFormatter_shape :
    Generated.skel_NewMethodNameFormatter = [
  "return func{…}",
  "  formattedMethod := method",
  "  if nameCase == LowerFirstCharCase && len(method) > 0",
  "    r, size := utf8.DecodeRuneInString(method)",
  "    formattedMethod = string(unicode.ToLower(r)) + method[size:]",
  "  if includeNamespace",
  "    return namespace + \".\" + formattedMethod",
  "  return formattedMethod"] := rfl

/-- `WithMethodNameFormatter`: the client-side formatter. -/
theorem skel_WithMethodNameFormatter_shape :
    Generated.skel_WithMethodNameFormatter = [
  "return func{…}",
  "  c.methodNamer = namer"] := rfl

/-- `WithServerMethodNameFormatter`: the server-side formatter. -/
theorem skel_WithServerMethodNameFormatter_shape :
    Generated.skel_WithServerMethodNameFormatter = [
  "return func{…}",
  "  c.methodNameFormatter = formatter"] := rfl

/-- `WithClientHandler`: a namespace and receiver of the client-side (reverse) handler table. -/
theorem skel_WithClientHandler_shape :
    Generated.skel_WithClientHandler = [
  "return func{…}",
  "  c.reverseHandlers = append(c.reverseHandlers, clientHandler{ns, hnd})"] := rfl

/-- `WithClientHandlerAlias`: an alias of the client-side handler table. -/
theorem skel_WithClientHandlerAlias_shape :
    Generated.skel_WithClientHandlerAlias = [
  "return func{…}",
  "  c.aliasedHandlerMethods[alias] = original"] := rfl

/-- `GetConnectionType`. -/
theorem skel_GetConnectionType_shape :
    Generated.skel_GetConnectionType = [
  "if v := ctx.Value(connectionTypeCtxKey); v != nil",
  "  return v.(ConnectionType)",
  "return ConnectionTypeUnknown"] := rfl

end Jrpc.Facts

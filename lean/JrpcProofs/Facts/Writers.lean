import Jrpc.Locks
import Jrpc.Generated.Facts
/-
  Obligations over the regenerated facts: the statement skeletons (normalised control flow; log lines,
  comments and formatting removed) of the functions that `Jrpc.Locks` transcribes are the ones the model was
  written against.  A change to any of them breaks this file; the check then searches for a failing input.
-/
namespace Jrpc.Facts

/-- `wsConn.sendRequest`: one request frame written as one message under the write lock. -/
theorem skel_sendRequest_shape :
    Generated.skel_sendRequest = [
  "c.writeLk.Lock()",
  "defer c.writeLk.Unlock()",
  "if debugTrace",
  "if err := c.conn.WriteJSON(req); err != nil",
  "  return err",
  "return nil"] := rfl

end Jrpc.Facts

import Jrpc.Keepalive
import Jrpc.Generated.Facts
/-
  Obligations over the regenerated facts: the statement skeletons (normalised control flow; log lines,
  comments and formatting removed) of the functions that `Jrpc.Keepalive` transcribes are the ones the model was
  written against.  A change to any of them breaks this file; the check then searches for a failing input.
-/
namespace Jrpc.Facts

/-- setupPings: both control-frame handlers push a token into pongs (non-blocking) — peer pings count as activity — and the ping handler answers with a pong; the pinger writes a ping every pingInterval under writeLk -/
theorem skel_setupPings_shape :
    Generated.skel_setupPings = [
  "if c.pingInterval == 0",
  "  return func{…}",
  "c.conn.SetPongHandler(func{…})",
  "  select",
  "    case c.pongs <- struct{}{}",
  "    default",
  "  return nil",
  "conn := c.conn",
  "c.conn.SetPingHandler(func{…})",
  "  select",
  "    case c.pongs <- struct{}{}",
  "    default",
  "  err := conn.WriteControl(websocket.PongMessage, []byte(appData), time.Now().Add(time.Second))",
  "  if err == websocket.ErrCloseSent",
  "    return nil",
  "  else if ok && e.Timeout()",
  "    return nil",
  "  return err",
  "stop := make(chan struct{})",
  "go func{…}()",
  "  for",
  "    select",
  "      case <-time.After(c.pingInterval)",
  "        c.writeLk.Lock()",
  "        if err := c.conn.WriteMessage(websocket.PingMessage, []byte{}); err != nil",
  "        c.writeLk.Unlock()",
  "      case <-stop",
  "        return",
  "var o sync.Once",
  "return func{…}",
  "  o.Do(func{…})",
  "    close(stop)"] := rfl

/-- resetReadDeadline: the read deadline becomes now + timeout (only when a timeout is configured) -/
theorem skel_resetReadDeadline_shape :
    Generated.skel_resetReadDeadline = [
  "if c.timeout > 0",
  "  if err := c.conn.SetReadDeadline(time.Now().Add(c.timeout)); err != nil"] := rfl

/-- nextMessage: the deadline is renewed before each read (model: renew, consuming the activity of the previous message) -/
theorem skel_nextMessage_shape :
    Generated.skel_nextMessage = [
  "c.resetReadDeadline()",
  "conn := c.conn",
  "msgType, r, err := conn.NextReader()",
  "if err != nil",
  "  c.errLk.Lock()",
  "  c.incomingErr = err",
  "  c.errLk.Unlock()",
  "  _ = conn.Close()",
  "  close(c.incoming)",
  "  return",
  "if msgType != websocket.BinaryMessage && msgType != websocket.TextMessage",
  "  c.errLk.Lock()",
  "  c.incomingErr = errors.New(\"unsupported message type\")",
  "  c.errLk.Unlock()",
  "  close(c.incoming)",
  "  return",
  "// While this goroutine waits for the connection loop to take the message nobody // is reading from the connection, so no read deadline can expire. If the loop is // inside a write to a peer that has fallen silent (a write has no deadline of its // own) it never comes back for the message: bound the wait like a read is bounded. var handoffTimeout <-chan time.Time",
  "if c.timeout > 0",
  "  t := time.NewTimer(c.timeout)",
  "  defer t.Stop()",
  "  handoffTimeout = t.C",
  "select",
  "  case c.incoming <- r",
  "  case <-c.exiting",
  "  case <-handoffTimeout",
  "    c.errLk.Lock()",
  "    c.incomingErr = errors.New(\"connection loop did not take a message within the timeout\")",
  "    c.errLk.Unlock()",
  "    _ = conn.Close()",
  "    close(c.incoming)"] := rfl

/-- autoResetReader wraps the frame reader -/
theorem skel_autoResetReader_shape :
    Generated.skel_autoResetReader = [
  "return &deadlineResetReader{ r: reader, reset: c.resetReadDeadline, lastReset: time.Now(), }"] := rfl

/-- slow reads renew the deadline at most every onReadDeadlineResetInterval -/
theorem skel_deadlineResetReader_Read_shape :
    Generated.skel_deadlineResetReader_Read = [
  "n, err = r.r.Read(p)",
  "if time.Since(r.lastReset) > onReadDeadlineResetInterval",
  "  r.reset()",
  "  r.lastReset = time.Now()",
  "return"] := rfl

end Jrpc.Facts

import Jrpc.Base
import Jrpc.Generated.Facts
/-
  Obligations over the regenerated facts: error codes and protocol method names are the ones the
  model uses (and the ones JSON-RPC 2.0 prescribes).
-/
namespace Jrpc.Facts
open Jrpc

theorem codes_match :
    Generated.rpcParseError = some codeParseError ∧
    Generated.rpcInvalidRequest = some codeInvalidRequest ∧
    Generated.rpcMethodNotFound = some codeMethodNotFound ∧
    Generated.rpcInvalidParams = some codeInvalidParams ∧
    Generated.eTempWSError = some codeTempWS := by decide

theorem codes_are_jsonrpc20 :
    Generated.rpcParseError = some (-32700) ∧ Generated.rpcInvalidRequest = some (-32600) ∧
    Generated.rpcMethodNotFound = some (-32601) ∧ Generated.rpcInvalidParams = some (-32602) := by decide

theorem control_methods :
    Generated.wsCancel = some "xrpc.cancel" ∧ Generated.chValue = some "xrpc.ch.val" ∧
    Generated.chClose = some "xrpc.ch.close" := by decide

/-- `handleFrame` dispatches on the method string exactly as the model's frame executor does. -/
theorem handleFrame_table :
    Generated.handleFrameTable =
      [("", "c.handleResponse"), ("xrpc.cancel", "c.cancelCtx"), ("xrpc.ch.val", "c.handleChanMessage"),
       ("xrpc.ch.close", "c.handleChanClose"), ("default", "c.handleCall")] := by decide

/-- `normalizeID` has the three arms of `Jrpc.normalizeID`. -/
theorem normalizeID_arms :
    Generated.normalizeIDArms =
      [("string,float64,nil", "v | err=false"), ("int64", "float64(v) | err=false"),
       ("default", "nil | err=true")] := by decide

theorem default_max_request_size :
    Generated.DEFAULT_MAX_REQUEST_SIZE = some 104857600 ∧
    Generated.defaultServerMaxRequestSize = Generated.DEFAULT_MAX_REQUEST_SIZE := by decide

end Jrpc.Facts

import Jrpc.TransDefs
import JrpcProofs.Trans.Lemmas
/-
  Translated `processFuncOut` (util.go), `batchWriter` (handler.go) and `waitReadCloser` (httpio/reader.go),
  regenerated from /repo on every run, against `Jrpc.processFuncOut`, `Jrpc.BatchWriter` and `Jrpc.Reader`.
-/
namespace Jrpc.Trans
open Jrpc Jrpc.MiniGo Jrpc.Generated.Progs

/-! ### processFuncOut -/

/-- Translated `processFuncOut` finds the value and error results where `Jrpc.processFuncOut` says, for each of the
    four supported result shapes. -/
theorem processFuncOut_translated (o : OutShape) :
    (run (outsExt (OutShape.results o)) prog_processFuncOut outsEnv).val? =
      some (Val.ofList [optPos (Call.processFuncOut o).1, optPos (Call.processFuncOut o).2.1, .int (Call.processFuncOut o).2.2]) := by
  cases o <;> rfl

/-- … and refuses (panics at registration time, never at call time) every other shape: two results of which the
    second is not `error`, or more than two results. -/
theorem processFuncOut_rejects_two (a : Bool) :
    (run (outsExt [a, false]) prog_processFuncOut outsEnv).isPanic = true := by
  cases a <;> rfl

theorem processFuncOut_rejects_many (a b c : Bool) (rest : List Bool) :
    (run (outsExt (a :: b :: c :: rest)) prog_processFuncOut outsEnv).isPanic = true := by
  have h0 : ((rest.length : Int) + 1 + 1 + 1 = 0) = False := by simp; omega
  have h1 : ((rest.length : Int) + 1 + 1 + 1 = 1) = False := by simp; omega
  have h2 : ((rest.length : Int) + 1 + 1 + 1 = 2) = False := by simp; omega
  mgsimp [prog_processFuncOut, outsExt, outsEnv, Out.isPanic, h0, h1, h2]

/-! ### batchWriter -/

open BatchWriter in
/-- Translated `batchWriter.nextElem` is `BW.nextElem`. -/
theorem bw_nextElem_translated (b : BW) :
    Out.bw (run bwExt prog_batchWriter_nextElem (bwEnv b)) = some (b.nextElem.started, b.nextElem.elemStarted) ∧
    (run bwExt prog_batchWriter_nextElem (bwEnv b)).fx = some [] := by
  cases b with
  | mk st es out => cases st <;> cases es <;> exact ⟨rfl, rfl⟩

open BatchWriter in
/-- Translated `batchWriter.Write(p)`: the flags become those of `BW.write`, and what reaches the underlying
    writer is exactly what `BW.write` appends — "[" before the first element that produces output, "," before each
    later one, nothing for an empty write. -/
theorem bw_write_translated (b : BW) (p : String) :
    Out.bw (run bwExt prog_batchWriter_Write (("p", .str p) :: bwEnv b)) = some ((b.write p).started, (b.write p).elemStarted) ∧
    ∃ added, (b.write p).out = b.out ++ added ∧
      (run bwExt prog_batchWriter_Write (("p", .str p) :: bwEnv b)).fx = some (added.map pieceVal) := by
  obtain ⟨st, es, out⟩ := b
  by_cases hp : p = ""
  · subst hp
    cases st <;> cases es <;> exact ⟨rfl, [], by simp [BW.write], rfl⟩
  · have hl : ((p.length : Int) = 0) = False := by simp [hp]
    have he : p.isEmpty = false := by simp [hp]
    have key : ∀ (added : List Piece), (BW.write ⟨st, es, out⟩ p).out = out ++ added →
        (run bwExt prog_batchWriter_Write (("p", .str p) :: bwEnv ⟨st, es, out⟩)).fx = some (added.map pieceVal) →
        Out.bw (run bwExt prog_batchWriter_Write (("p", .str p) :: bwEnv ⟨st, es, out⟩)) =
          some ((BW.write ⟨st, es, out⟩ p).started, (BW.write ⟨st, es, out⟩ p).elemStarted) →
        (Out.bw (run bwExt prog_batchWriter_Write (("p", .str p) :: bwEnv ⟨st, es, out⟩)) =
            some ((BW.write ⟨st, es, out⟩ p).started, (BW.write ⟨st, es, out⟩ p).elemStarted) ∧
          ∃ added, (BW.write ⟨st, es, out⟩ p).out = out ++ added ∧
            (run bwExt prog_batchWriter_Write (("p", .str p) :: bwEnv ⟨st, es, out⟩)).fx = some (added.map pieceVal)) :=
      fun added h1 h2 h3 => And.intro h3 ⟨added, h1, h2⟩
    cases st <;> cases es
    · exact key [.lbrack, .data p] (by simp [BW.write, he])
        (by mgsimp [prog_batchWriter_Write, bwExt, bwEnv, hl, hp, pieceVal])
        (by mgsimp [prog_batchWriter_Write, bwExt, bwEnv, Out.bw, BW.write, hl, he, hp])
    · exact key [.data p] (by simp [BW.write, he])
        (by mgsimp [prog_batchWriter_Write, bwExt, bwEnv, hl, hp, pieceVal])
        (by mgsimp [prog_batchWriter_Write, bwExt, bwEnv, Out.bw, BW.write, hl, he, hp])
    · exact key [.comma, .data p] (by simp [BW.write, he])
        (by mgsimp [prog_batchWriter_Write, bwExt, bwEnv, hl, hp, pieceVal])
        (by mgsimp [prog_batchWriter_Write, bwExt, bwEnv, Out.bw, BW.write, hl, he, hp])
    · exact key [.data p] (by simp [BW.write, he])
        (by mgsimp [prog_batchWriter_Write, bwExt, bwEnv, hl, hp, pieceVal])
        (by mgsimp [prog_batchWriter_Write, bwExt, bwEnv, Out.bw, BW.write, hl, he, hp])

open BatchWriter in
/-- Translated `batchWriter.finish` writes "]" iff something was written before. -/
theorem bw_finish_translated (b : BW) :
    ∃ added, b.finish = b.out ++ added ∧
      (run bwExt prog_batchWriter_finish (bwEnv b)).fx = some (added.map pieceVal) := by
  obtain ⟨st, es, out⟩ := b
  cases st
  · exact ⟨[], by simp [BW.finish], by cases es <;> rfl⟩
  · exact ⟨[.rbrack], by simp [BW.finish], by cases es <;> rfl⟩

/-! ### httpio.waitReadCloser -/

open Reader in
/-- Translated `waitReadCloser.Read` against `Reader.readStep`, for every state and every answer of the wrapped body
    that the model does not refuse: the sticky error, the `wait` channel and the number of `close(w.wait)` executions
    end up as the model says; a remembered error is returned without touching the body; nothing panics (in
    particular `wait` is never closed twice). -/
theorem wrc_read_translated (w : WRC) (want got : Nat) (eofWithData : Bool)
    (hok : (readStep w want got eofWithData).2 ≠ .refused) :
    let eof := (w.rest.drop got).isEmpty && (got == 0 || eofWithData)
    let o := run (wrcExt got eof) prog_httpio_waitReadCloser_Read (("p", .tag "buf" (.int want)) :: wrcEnv w)
    let w' := (readStep w want got eofWithData).1
    Out.wrc o = some (w'.stickyEOF, w'.waitClosed, (w'.closeCount : Int)) ∧
    o.fx = some (if w.stickyEOF then [] else [.str "body.Read"]) ∧
    o.val? = some (if w.stickyEOF then .cons (.int 0) (.cons eofErr .nil)
                   else .cons (.int got) (.cons (if eof then eofErr else .nil) .nil)) := by
  obtain ⟨rest, sticky, wc, cc⟩ := w
  intro eof o w'
  cases sticky
  · -- no remembered error: the body is read
    have hnr : (got > want || got > rest.length || (got == 0 && !rest.isEmpty && want > 0)) = false := by
      cases h : (got > want || got > rest.length || (got == 0 && !rest.isEmpty && want > 0))
      · rfl
      · simp [readStep, h] at hok
    cases he : eof <;> cases wc <;>
      simp only [o, w', readStep, hnr, eof] at * <;>
      (simp only [he]; mgsimp [prog_httpio_waitReadCloser_Read, prog_httpio_waitReadCloser_Read_lit1, wrcExt, wrcEnv, Out.wrc, WRC.closeWait, eofErr])
  · cases wc <;> mgsimp [o, w', readStep, prog_httpio_waitReadCloser_Read, wrcExt, wrcEnv, Out.wrc, eofErr]

open Reader in
/-- Translated `waitReadCloser.Close`: closes `wait` once (`WRC.closeWait`), then closes the body — never a panic,
    however often and in whatever state it is called. -/
theorem wrc_close_translated (w : WRC) (n : Nat) (e : Bool) :
    let o := run (wrcExt n e) prog_httpio_waitReadCloser_Close (wrcEnv w)
    Out.wrc o = some (w.closeWait.stickyEOF, w.closeWait.waitClosed, (w.closeWait.closeCount : Int)) ∧
    o.fx = some [.str "body.Close"] := by
  obtain ⟨rest, sticky, wc, cc⟩ := w
  cases sticky <;> cases wc <;>
    mgsimp [prog_httpio_waitReadCloser_Close, prog_httpio_waitReadCloser_Close_lit1, wrcExt, wrcEnv, Out.wrc, WRC.closeWait, eofErr]

end Jrpc.Trans

import Jrpc.TransDefs
import Jrpc.MiniGo
import Jrpc.Generated.Progs
import Jrpc.Auth
import JrpcProofs.Trans.Lemmas
/-
  Translated `auth.HasPerm` (regenerated from /repo on every run) computes `Jrpc.Auth.hasPerm`.
-/
namespace Jrpc.Trans
open Jrpc.MiniGo Jrpc.Generated.Progs

theorem any_str (ps : List String) (p : String) :
    ((ps.map Val.str).any fun x => x == Val.str p) = ps.contains p := by
  induction ps with
  | nil => rfl
  | cons a ps ih =>
    simp only [List.map_cons, List.any_cons, ih, List.contains_cons]
    by_cases h : a = p
    · subst h; simp
    · have : (p == a) = false := by simpa using fun e => h e.symm
      simp [h, this]

/-- `HasPerm(ctx, defaultPerms, perm)` of the current source returns exactly `Auth.hasPerm`: the attached set if
    there is one (even an empty one), the defaults otherwise; membership by equality. -/
theorem hasPerm_translated (attached : Option (List String)) (defaults : List String) (p : String) :
    (run (authExt attached) prog_auth_HasPerm (hasPermEnv defaults p)).val?
      = some (.bool (Auth.hasPerm attached defaults p)) := by
  unfold prog_auth_HasPerm hasPermEnv
  cases attached with
  | none =>
    simp [run, exec, eval, authExt, MiniGo.bind, bindMany, Env.bind1, Env.set, Env.get, Val.toList, Val.dynType, unop]
    generalize hs : rangeLoop _ _ _ _ = res
    rw [Val.strs] at hs
    have key := rangeLoop_search_res (fun en => en.get "perm" = some (.str p)) (fun x => x == .str p) (.bool true) hs
      (by simp [Env.get]) (by
        intro en i x hP
        have h1 : (en.set "callerPerm" x).get "perm" = some (.str p) := by
          rw [Env.get_set_other _ _ _ _ (by decide)]; exact hP
        simp only [h1, binop]
        by_cases hx : x = .str p <;> simp [hx, h1])
    rw [any_str] at key
    simp only [Auth.hasPerm, Auth.effective]
    cases hc : defaults.contains p with
    | true => obtain ⟨en', he⟩ := key.1 hc; subst he; simp [Out.val?]
    | false => obtain ⟨en', he, _⟩ := key.2 hc; subst he; simp [Out.val?]
  | some ps =>
    simp [run, exec, eval, authExt, MiniGo.bind, bindMany, Env.bind1, Env.set, Env.get, Val.toList, Val.dynType, unop,
      Val.payload]
    generalize hs : rangeLoop _ _ _ _ = res
    rw [Val.strs] at hs
    have key := rangeLoop_search_res (fun en => en.get "perm" = some (.str p)) (fun x => x == .str p) (.bool true) hs
      (by simp [Env.get]) (by
        intro en i x hP
        have h1 : (en.set "callerPerm" x).get "perm" = some (.str p) := by
          rw [Env.get_set_other _ _ _ _ (by decide)]; exact hP
        simp only [h1, binop]
        by_cases hx : x = .str p <;> simp [hx, h1])
    rw [any_str] at key
    simp only [Auth.hasPerm, Auth.effective]
    cases hc : ps.contains p with
    | true => obtain ⟨en', he⟩ := key.1 hc; subst he; simp [Out.val?]
    | false => obtain ⟨en', he, _⟩ := key.2 hc; subst he; simp [Out.val?]

/-- Non-vacuity: an attached empty set denies although the defaults would allow. -/
example : (run (authExt (some [])) prog_auth_HasPerm (hasPermEnv ["read"] "read")).val? = some (.bool false) := by
  simpa [Auth.hasPerm, Auth.effective] using hasPerm_translated (some []) ["read"] "read"

/-- C19 over the regenerated code: `HasPerm` answers true iff the permission is in the caller's effective set — what
    was attached, even if empty, otherwise the defaults. -/
theorem C19_hasPerm_iff (attached : Option (List String)) (defaults : List String) (p : String) :
    (run (authExt attached) prog_auth_HasPerm (hasPermEnv defaults p)).val? = some (.bool true) ↔
      p ∈ Auth.effective attached defaults := by
  rw [hasPerm_translated]
  simp [Auth.hasPerm]

end Jrpc.Trans

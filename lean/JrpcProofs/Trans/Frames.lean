import Jrpc.TransDefs
import Jrpc.MiniGo
import Jrpc.Generated.Progs
import Jrpc.Frames
import JrpcProofs.Trans.Lemmas
/-
  Translated frame handlers of websocket.go (regenerated from /repo on every run) against `Jrpc.Frames`:
  `normalizeID`, `handleFrame`, `cancelCtx`, `handleChanMessage`, `handleChanClose`.

  What is assumed about code that is not translated (the extern semantics `frameExt`):
    * `json.Unmarshal(raw, &params)` into `[]param` succeeds exactly for an array (one raw element each) and for
      `null` (nil slice), as `CtlParams.decoded` says;
    * `json.Unmarshal(data, &x)` of one array element into `interface{}` never fails and yields nil / bool / float64 /
      string / []interface{} / map[string]interface{} by the element's shape; into `uint64` it succeeds for an unsigned
      integer and, leaving the variable untouched, for `null`;
    * `len`, `float64(int64)`, `xerrors.Errorf` are what they are.
  These are the same assumptions `Jrpc.Frames` makes; the C10 differential checks them against the real decoder.
-/
namespace Jrpc.Trans
open Jrpc Jrpc.MiniGo Jrpc.Generated.Progs

theorem encKey_inj {a b : NId} (h : encKey a = encKey b) : a = b := by
  cases a <;> cases b <;> simp [encKey] at h <;> simp [h]

/-! ### normalizeID -/

/-- Translated `normalizeID`: string, float64 and nil pass unchanged, the int64 counter becomes the float64 with
    the same decimal text, every other dynamic type is an error — exactly `Jrpc.normalizeID`. -/
theorem normalizeID_translated (badTy : String) (w : WireId)
    (hb : badTy ≠ "string" ∧ badTy ≠ "float64" ∧ badTy ≠ "nil" ∧ badTy ≠ "int64") :
    (run (frameExt .absent) prog_normalizeID [("id", encId badTy w)]).val? =
      match normalizeID w with
      | some k => some (.cons (encKey k) (.cons .nil .nil))
      | none => some (.cons .nil (.cons (errVal "xerrors") .nil)) := by
  obtain ⟨h1, h2, h3, h4⟩ := hb
  unfold prog_normalizeID
  cases w <;>
    simp [run, exec, eval, frameExt, encId, encKey, normalizeID, Env.set, Env.get, Val.dynType, Val.payload,
      Val.toList, Out.val?, Ne.symm h1, Ne.symm h2, Ne.symm h3, Ne.symm h4]

/-! ### cancelCtx -/

theorem mapGet_encHandling (hs : List NId) (k : NId) :
    (encHandling hs).mapGet (encKey k) = if hs.contains k then some (cancelFn k) else none := by
  induction hs with
  | nil => simp [encHandling, Val.ofList, Val.mapGet]
  | cons a hs ih =>
    simp only [encHandling, List.map_cons, Val.ofList, Val.mapGet, List.contains_cons] at ih ⊢
    by_cases h : a = k
    · subst h; simp
    · have h' : encKey a ≠ encKey k := fun e => h (encKey_inj e)
      have h'' : (k == a) = false := by simpa using fun e => h e.symm
      simp [h', h'', ih]

theorem hashable_encKey (k : NId) : (encKey k).hashable = true := by
  cases k <;> simp [encKey, Val.hashable]

/-- Translated `cancelCtx`, for every frame a peer can send and every `handling` table: it returns (never panics,
    never reaches an untranslated construct) and invokes exactly the cancel functions `Jrpc.cancelCtx` says. -/
theorem cancelCtx_translated (hasID : Bool) (s : ExecState) (p : CtlParams) :
    ∃ keys, (run (frameExt p) prog_wsConn_cancelCtx (cancelEnv hasID s)).fx = some (keys.map encCancel) ∧
      Jrpc.cancelCtx s p = .ok { s with cancelled := s.cancelled ++ keys } := by
  cases p with
  | absent | nonArray =>
    refine ⟨[], ?_, ?_⟩
    · cases hasID <;> rfl
    · simp [Jrpc.cancelCtx, CtlParams.decoded]
  | null =>
    refine ⟨[], ?_, ?_⟩
    · cases hasID <;> rfl
    · simp [Jrpc.cancelCtx, CtlParams.decoded]
  | arr es =>
    cases es with
    | nil =>
      refine ⟨[], ?_, ?_⟩
      · cases hasID <;> rfl
      · simp [Jrpc.cancelCtx, CtlParams.decoded]
    | cons v rest =>
      obtain ⟨shape, text⟩ := v
      cases shape with
      | bool | arr | obj =>
        refine ⟨[], ?_, ?_⟩
        · cases hasID <;> rfl
        · simp [Jrpc.cancelCtx, CtlParams.decoded, JVal.key?]
      | null =>
        refine ⟨if NId.nil ∈ s.handling then [.nil] else [], ?_, ?_⟩
        · have hg : (encHandling s.handling).mapGet Val.nil = _ := mapGet_encHandling s.handling .nil
          cases hasID <;>
          · simp [prog_wsConn_cancelCtx, prog_normalizeID, cancelEnv, run, exec, eval, frameExt, CtlParams.decoded, MiniGo.bind, bindMany, Env.bind1, Env.set, Env.get, Val.toList, binop, errVal, Out.fx, fxOf, Val.ofList, Val.len, encParam, shapeName, unmarshalIface, Val.nth, Val.dynType, Val.hashable, hg]
            by_cases hm : NId.nil ∈ s.handling <;> simp [hm, bindMany, Env.bind1, Env.set, Env.get, logFx, Val.ofList, Val.toList, encCancel, cancelFn]
        · by_cases hm : NId.nil ∈ s.handling <;> simp [Jrpc.cancelCtx, CtlParams.decoded, JVal.key?, hm]
      | uint | num =>
        refine ⟨if s.handling.contains (.num text) then [.num text] else [], ?_, ?_⟩
        · have hg : (encHandling s.handling).mapGet (.tag "float64" (.str text)) = _ := mapGet_encHandling s.handling (.num text)
          cases hasID <;>
          · simp [prog_wsConn_cancelCtx, prog_normalizeID, cancelEnv, run, exec, eval, frameExt, CtlParams.decoded, MiniGo.bind, bindMany, Env.bind1, Env.set, Env.get, Val.toList, binop, errVal, Out.fx, fxOf, Val.ofList, Val.len, encParam, shapeName, unmarshalIface, Val.nth, Val.dynType, Val.hashable, hg]
            by_cases hm : (NId.num text) ∈ s.handling <;> simp [hm, bindMany, Env.bind1, Env.set, Env.get, logFx, Val.ofList, Val.toList, encCancel, cancelFn]
        · by_cases hm : (NId.num text) ∈ s.handling <;> simp [Jrpc.cancelCtx, CtlParams.decoded, JVal.key?, hm]
      | str =>
        refine ⟨if s.handling.contains (.str text) then [.str text] else [], ?_, ?_⟩
        · have hg : (encHandling s.handling).mapGet (.tag "string" (.str text)) = _ := mapGet_encHandling s.handling (.str text)
          cases hasID <;>
          · simp [prog_wsConn_cancelCtx, prog_normalizeID, cancelEnv, run, exec, eval, frameExt, CtlParams.decoded, MiniGo.bind, bindMany, Env.bind1, Env.set, Env.get, Val.toList, binop, errVal, Out.fx, fxOf, Val.ofList, Val.len, encParam, shapeName, unmarshalIface, Val.nth, Val.dynType, Val.hashable, hg]
            by_cases hm : (NId.str text) ∈ s.handling <;> simp [hm, bindMany, Env.bind1, Env.set, Env.get, logFx, Val.ofList, Val.toList, encCancel, cancelFn]
        · by_cases hm : (NId.str text) ∈ s.handling <;> simp [Jrpc.cancelCtx, CtlParams.decoded, JVal.key?, hm]

/-! ### handleChanMessage / handleChanClose -/

theorem encCh_inj {a b : String} (h : encCh a = encCh b) : a = b := by
  unfold encCh at h
  by_cases ha : a = "0" <;> by_cases hb : b = "0" <;> simp [ha, hb] at h
  · rw [ha, hb]
  · exact h

theorem mapGet_encChans (cs : List String) (t : String) :
    (encChans cs).mapGet (encCh t) = if t ∈ cs then some (hndOf t) else none := by
  induction cs with
  | nil => simp [encChans, Val.ofList, Val.mapGet]
  | cons a cs ih =>
    simp only [encChans, List.map_cons, Val.ofList, Val.mapGet, List.mem_cons] at ih ⊢
    by_cases h : a = t
    · subst h; simp
    · have h' : encCh a ≠ encCh t := fun e => h (encCh_inj e)
      have h'' : ¬ t = a := fun e => h e.symm
      simp [h', h'', ih]

theorem hashable_encCh (t : String) : (encCh t).hashable = true := by
  unfold encCh; split <;> simp [Val.hashable]

theorem mapDel_encChans (cs : List String) (t : String) (hn : cs.Nodup) :
    (encChans cs).mapDel (encCh t) = encChans (cs.erase t) := by
  induction cs with
  | nil => simp [encChans, Val.ofList, Val.mapDel]
  | cons a cs ih =>
    have hn' := (List.nodup_cons.mp hn)
    simp only [encChans, List.map_cons, Val.ofList, Val.mapDel] at ih ⊢
    by_cases h : a = t
    · subst h
      have : (Val.ofList (cs.map fun t => (encCh t).cons (hndOf t))).mapDel (encCh a) = encChans (cs.erase a) := ih hn'.2
      rw [List.erase_of_not_mem hn'.1] at this
      simp [this, encChans]
    · have h' : encCh a ≠ encCh t := fun e => h (encCh_inj e)
      have hb : (a == t) = false := by simpa using h
      simp [h', hb, ih hn'.2, Val.ofList]

end Jrpc.Trans

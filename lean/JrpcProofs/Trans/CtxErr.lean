import Jrpc.TransDefs
import JrpcProofs.Trans.Lemmas
/-
  Translated context accessors and connection-error methods, regenerated from /repo on every run:

  * `ExtractReverseClient` (options_server.go) — what a handler gets when it asks for the reverse client of the
    connection its call arrived on (C16);
  * `GetConnectionType` (server.go);
  * `(*RPCConnectionError).Error / Unwrap` (errors.go) — the error every call swept at a connection loss completes
    with (C03): it must keep the underlying cause reachable for `errors.Is / As`.

  The extern semantics (what `ctx.Value`, `new`, `errors.New`, `err.Error()` do) are stated here, next to the theorems
  that use them.
-/
namespace Jrpc.Trans
open Jrpc Jrpc.MiniGo Jrpc.Generated.Progs

/-- The zero value of a type parameter, as `*new(C)` yields it. -/
def zeroOf (ty : String) : Val := .tag "zero" (.str ty)

/-- Externs of the context accessors: `ctx.Value(key)` yields `stored` (whatever the server attached under that key,
    `nil` when nothing was); `new(T)`, `reflect.TypeOf(..).Elem()` and the key literal only build the key. -/
def ctxExt (stored : Val) : Ext
  | "ctx.Value", [_], env => .ok stored env
  | "new", [.str ty], env => .ok (zeroOf ty) env
  | "reflect.TypeOf", [v], env => .ok (.tag "reflect.Type" v) env
  | ".Elem", [v], env => .ok v env
  | "lit:jsonrpcReverseClient", [v], env => .ok (.tag "jsonrpcReverseClient" v) env
  | fn, _, _ => .stuck fn

/-- What the model says `ExtractReverseClient` yields for the value found in the context: the client, iff the value is
    a non-nil `*C`; otherwise the zero client and `false` — never a panic, never somebody else's type. -/
def extractReverse (stored : Val) : Val × Bool :=
  match stored with
  | .tag "*C" p => if p = .nil then (zeroOf "C", false) else (p, true)
  | _ => (zeroOf "C", false)

theorem extractReverseClient_translated (stored : Val) :
    (run (ctxExt stored) prog_ExtractReverseClient [("ctx", .tag "ctx" .nil)]).val? =
      some (.cons (extractReverse stored).1 (.cons (.bool (extractReverse stored).2) .nil)) := by
  unfold prog_ExtractReverseClient
  cases stored with
  | tag t p =>
    by_cases ht : t = "*C"
    · subst ht
      by_cases hp : p = .nil
      · subst hp
        mgsimp [ctxExt, extractReverse, zeroOf]
      · mgsimp [ctxExt, extractReverse, zeroOf, hp]
    · have hm : extractReverse (.tag t p) = (zeroOf "C", false) := by
        unfold extractReverse
        split
        · rename_i h; cases h; exact absurd rfl ht
        · rfl
      rw [hm]
      mgsimp [ctxExt, zeroOf, ht]
  | _ => mgsimp [ctxExt, extractReverse, zeroOf]

/-- A handler is handed a client with `true` only when the context holds a non-nil `*C`. -/
theorem extractReverse_true_iff (stored : Val) :
    (extractReverse stored).2 = true ↔ ∃ p, stored = .tag "*C" p ∧ p ≠ .nil := by
  constructor
  · intro h
    unfold extractReverse at h
    split at h
    · rename_i p
      by_cases hp : p = .nil
      · simp [hp] at h
      · exact ⟨p, rfl, hp⟩
    · simp at h
  · rintro ⟨p, rfl, hp⟩
    simp [extractReverse, hp]

/-- non-vacuity: both outcomes are reached. -/
example : (extractReverse (.tag "*C" (.str "client#1"))).2 = true ∧ (extractReverse .nil).2 = false
    ∧ (extractReverse (.tag "*D" (.str "x"))).2 = false ∧ (extractReverse (.tag "*C" .nil)).2 = false := by
  decide

/-- Translated `GetConnectionType`: the attached type when the server attached one, `"unknown"` otherwise. -/
theorem getConnectionType_translated (attached : Option String) :
    (run (ctxExt (match attached with | some t => .tag "ConnectionType" (.str t) | none => .nil))
        prog_GetConnectionType [("ctx", .tag "ctx" .nil), ("connectionTypeCtxKey", .tag "key" (.int 0))]).val? =
      some (.str (attached.getD "unknown")) := by
  unfold prog_GetConnectionType
  cases attached <;> mgsimp [ctxExt]

/-! ### RPCConnectionError -/

/-- Externs of the error methods: `e.err.Error()` is the cause's message, `errors.New(s)` a fresh error. -/
def errExt (msg : String) : Ext
  | "e.err.Error", [], env => .ok (.str msg) env
  | "errors.New", [.str s], env => .ok (.tag "error" (.str s)) env
  | fn, _, _ => .stuck fn

/-- `Error()` is the cause's message when there is a cause, the fixed text otherwise. -/
theorem connErr_error_translated (cause : Val) (msg : String) :
    (run (errExt msg) prog_RPCConnectionError_Error [("e.err", cause)]).val? =
      some (.str (if cause = .nil then "RPCConnectionError" else msg)) := by
  unfold prog_RPCConnectionError_Error
  by_cases h : cause = .nil
  · subst h; mgsimp [errExt]
  · mgsimp [errExt, h]

/-- `Unwrap()` hands out the very cause the sweep stored (so `errors.Is / As` reach it) and never `nil`. -/
theorem connErr_unwrap_translated (cause : Val) (msg : String) :
    (run (errExt msg) prog_RPCConnectionError_Unwrap [("e.err", cause)]).val? =
      some (if cause = .nil then .tag "error" (.str "RPCConnectionError") else cause) := by
  unfold prog_RPCConnectionError_Unwrap
  by_cases h : cause = .nil
  · subst h; mgsimp [errExt]
  · mgsimp [errExt, h]

theorem connErr_unwrap_never_nil (cause : Val) (msg : String) :
    (run (errExt msg) prog_RPCConnectionError_Unwrap [("e.err", cause)]).val? ≠ some .nil := by
  rw [connErr_unwrap_translated]
  by_cases h : cause = .nil <;> simp [h]

/-! ### ErrClient -/

/-- Extern of `ErrClient.Error`: `fmt.Sprintf("RPC client error: %s", err)` with exactly this format string prints the cause's
    message after the prefix (any other format string is outside the stated semantics: the run is stuck). -/
def errClientExt (msg : String) : Ext
  | "fmt.Sprintf", [.str "RPC client error: %s", _], env => .ok (.str ("RPC client error: " ++ msg)) env
  | fn, _, _ => .stuck fn

/-- `ErrClient.Unwrap()` is the stored cause itself, for every cause: `errors.Is / As` see through the wrapper. -/
theorem errClient_unwrap_translated (cause : Val) (ext : Ext) :
    (run ext prog_ErrClient_Unwrap [("e.err", cause)]).val? = some cause := by
  unfold prog_ErrClient_Unwrap
  mgsimp

/-- `ErrClient.Error()` is the fixed prefix followed by the cause's text. -/
theorem errClient_error_translated (cause : Val) (msg : String) :
    (run (errClientExt msg) prog_ErrClient_Error [("e.err", cause)]).val? =
      some (.str ("RPC client error: " ++ msg)) := by
  unfold prog_ErrClient_Error
  mgsimp [errClientExt]

end Jrpc.Trans

import Jrpc.TransDefs
import Jrpc.TransDefs
import JrpcProofs.Trans.Lemmas
import JrpcProofs.Facts.Interp
/-
  Translated `handleFrame` (websocket.go): for every method string, which function the switch calls.
-/
namespace Jrpc.Trans
open Jrpc Jrpc.MiniGo Jrpc.Generated.Progs

/-- Translated `handleFrame` calls exactly one function, and it is the one the model's dispatch chain
    (`Facts.modelTarget`, proved to be `execFrame`'s chain in `Facts.execFrame_calls_iff`) names — for every method string. -/
theorem handleFrame_translated (m : String) (frame ctx epoch : Val) :
    (run dispatchExt prog_wsConn_handleFrame
        [("frame.Method", .str m), ("frame", frame), ("ctx", ctx), ("epoch", epoch)]).fx
      = some [.str (Facts.modelTarget m)] := by
  unfold Facts.modelTarget
  by_cases h1 : m = ""
  · subst h1; rfl
  by_cases h2 : m = "xrpc.cancel"
  · subst h2; rfl
  by_cases h3 : m = "xrpc.ch.val"
  · subst h3; rfl
  by_cases h4 : m = "xrpc.ch.close"
  · subst h4; rfl
  mgsimp [prog_wsConn_handleFrame, dispatchExt, h1, h2, h3, h4, Ne.symm h1, Ne.symm h2, Ne.symm h3, Ne.symm h4]

end Jrpc.Trans

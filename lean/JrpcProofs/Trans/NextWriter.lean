import Jrpc.TransDefs
import JrpcProofs.Trans.Lemmas
/-
  Translated `nextWriter` (websocket.go): the one place a response message is opened on the connection.
-/
namespace Jrpc.Trans
open Jrpc Jrpc.MiniGo Jrpc.Generated.Progs

/-- A response of a request that arrived on an earlier connection (its epoch is not the current one) never touches the
    connection: the callback is run against the discarding writer and nothing else happens (the code-level form of
    `Epoch_stale_silent`, repair F18). -/
theorem nextWriter_stale_translated (cur epoch : Nat) (h : cur ≠ epoch) (openFails closeFails : Bool) :
    (run (writerExt cur openFails closeFails) prog_wsConn_nextWriter (writerEnv epoch)).fx
      = some [.cons (.str "cb") (.tag "discard" .nil)] := by
  have h' : ((cur : Int) = (epoch : Int)) = False := by
    simp only [eq_iff_iff, iff_false]; intro e; exact h (by exact_mod_cast e)
  mgsimp [prog_wsConn_nextWriter, writerExt, writerEnv, h']

/-- A response of a request of the current connection: exactly one message is opened, the callback writes into it, and
    it is closed — in that order, with nothing in between (the code-level form of "a message is one contiguous block",
    C14); if the connection refuses to open a message nothing is written at all. -/
theorem nextWriter_current_translated (epoch : Nat) (openFails closeFails : Bool) :
    (run (writerExt epoch openFails closeFails) prog_wsConn_nextWriter (writerEnv epoch)).fx
      = some (if openFails then [.str "conn.NextWriter"]
              else [.str "conn.NextWriter", .cons (.str "cb") (.tag "wcl" .nil), .str "wcl.Close"]) := by
  cases openFails <;> cases closeFails <;> mgsimp [prog_wsConn_nextWriter, writerExt, writerEnv, errVal]

end Jrpc.Trans

import Jrpc.TransDefs
import Jrpc.MiniGo
import Jrpc.Generated.Progs
import Jrpc.Dispatch
import JrpcProofs.Trans.Lemmas
/-
  Translated method-name formatter (the closure `NewMethodNameFormatter` returns) against `Jrpc.Fmt.apply`.

  Extern assumptions: strings are sequences of characters (the model's `Name`); `utf8.DecodeRuneInString` yields the
  first character and its size; `unicode.ToLower` agrees with Lean's `Char.toLower` (true for ASCII letters, which is
  the domain the injectivity theorem of C12 is stated for — see DESIGN §8); `s[n:]` drops `n` characters.
-/
namespace Jrpc.Trans
open Jrpc Jrpc.MiniGo Jrpc.Generated.Progs

/-- The closure returned by `NewMethodNameFormatter(includeNamespace, nameCase)` of the current source computes
    `Fmt.apply` — for all four built-in variants and all names. -/
theorem formatter_translated (inc lower : Bool) (ns m : String) :
    (run fmtExt prog_NewMethodNameFormatter_lit1 (fmtEnv inc lower ns m)).val?
      = some (.str (String.ofList ((Fmt.mk inc lower ['.']).apply ns.toList m.toList))) := by
  unfold prog_NewMethodNameFormatter_lit1 fmtEnv
  cases hm : m.toList with
  | nil =>
    cases inc <;> cases lower <;>
      mgsimp [fmtExt, hm, Fmt.apply, lowerFirst] <;>
      (apply String.toList_inj.mp; simp [hm])
  | cons c cs =>
    cases inc <;> cases lower <;>
      mgsimp [fmtExt, hm, Fmt.apply, lowerFirst, rune] <;>
      (apply String.toList_inj.mp; simp [hm])

end Jrpc.Trans

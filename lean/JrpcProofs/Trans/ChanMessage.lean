import JrpcProofs.Trans.FramesLemmas
/-
  Translated `handleChanMessage` (websocket.go), regenerated from /repo on every run, against `Jrpc.handleChanMessage`.
-/
namespace Jrpc.Trans
open Jrpc Jrpc.MiniGo Jrpc.Generated.Progs

/-- Translated `handleChanMessage`, for every params member a peer can send and every channel table: it returns
    (no index out of range, no stuck path) and hands exactly the values `Jrpc.handleChanMessage` says to exactly the
    handler registered for the channel id — the raw second element, with `ok = true`. -/
theorem handleChanMessage_translated (s : ExecState) (p : CtlParams) :
    ∃ ds : List (String × JVal),
      (run (frameExt p) prog_wsConn_handleChanMessage (chanEnv s)).fx = some (ds.map fun d => encCb d.1 (rawOf d.2) true) ∧
      Jrpc.handleChanMessage s p = .ok { s with delivered := s.delivered ++ ds.map fun d => (d.1, d.2.text) } := by
  cases p with
  | absent | nonArray | null =>
    exact ⟨[], by rfl, by simp [Jrpc.handleChanMessage, CtlParams.decoded]⟩
  | arr es =>
    match es with
    | [] => exact ⟨[], by rfl, by simp [Jrpc.handleChanMessage, CtlParams.decoded]⟩
    | [_] => exact ⟨[], by rfl, by simp [Jrpc.handleChanMessage, CtlParams.decoded]⟩
    | ⟨shape, text⟩ :: v2 :: rest =>
      cases shape with
      | bool | num | str | arr | obj =>
        exact ⟨[], by rfl, by simp [Jrpc.handleChanMessage, CtlParams.decoded, JVal.chanIdOf]⟩
      | null =>
        refine ⟨if "0" ∈ s.chanHandlers then [("0", v2)] else [], ?_, ?_⟩
        · have hg : (encChans s.chanHandlers).mapGet (.int 0) = _ := mapGet_encChans s.chanHandlers "0"
          mgsimp [prog_wsConn_handleChanMessage, chanEnv, frameExt, CtlParams.decoded, errVal, encParam, shapeName, unmarshalU64, Val.hashable, hg]
          by_cases hm : "0" ∈ s.chanHandlers <;> mgsimp [hm, hg, frameExt, encCb, rawOf, hndOf, shapeName, Val.hashable]
        · by_cases hm : "0" ∈ s.chanHandlers <;> simp [Jrpc.handleChanMessage, CtlParams.decoded, JVal.chanIdOf, hm] <;> omega
      | uint =>
        refine ⟨if text ∈ s.chanHandlers then [(text, v2)] else [], ?_, ?_⟩
        · have hg : (encChans s.chanHandlers).mapGet (encCh text) = _ := mapGet_encChans s.chanHandlers text
          have hh := hashable_encCh text
          mgsimp [prog_wsConn_handleChanMessage, chanEnv, frameExt, CtlParams.decoded, errVal, encParam, shapeName, unmarshalU64, hh, hg]
          by_cases hm : text ∈ s.chanHandlers <;> mgsimp [hm, hg, hh, frameExt, encCb, rawOf, hndOf, shapeName, Val.hashable]
        · by_cases hm : text ∈ s.chanHandlers <;> simp [Jrpc.handleChanMessage, CtlParams.decoded, JVal.chanIdOf, hm] <;> omega

/-- C10 over the regenerated code: no params member of an `xrpc.ch.val` frame makes `handleChanMessage` panic. -/
theorem C10_handleChanMessage_never_panics (s : ExecState) (p : CtlParams) :
    (run (frameExt p) prog_wsConn_handleChanMessage (chanEnv s)).isPanic = false := by
  obtain ⟨_, h, _⟩ := handleChanMessage_translated s p
  exact not_panic_of_fx h

end Jrpc.Trans

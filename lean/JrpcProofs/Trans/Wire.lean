import Jrpc.TransDefs
import JrpcProofs.Trans.Lemmas
/-
  Translated `response.MarshalJSON` (response.go): the object handed to `json.Marshal`.
-/
namespace Jrpc.Trans
open Jrpc Jrpc.MiniGo Jrpc.Generated.Progs

/-- With an error: exactly the members jsonrpc, id and error (no result), holding the response's own fields. -/
theorem marshal_error_translated (j i res e : Val) (he : e ≠ .nil) :
    (run wireExt prog_response_MarshalJSON (respEnv j i res e)).fx =
      some [Val.ofList [.cons (.str "error") e, .cons (.str "jsonrpc") j, .cons (.str "id") i]] := by
  have : (e = Val.nil) = False := by simp [he]
  mgsimp [prog_response_MarshalJSON, wireExt, respEnv, Val.hashable, Val.mapSet, Val.mapDel, kvOf, this]

/-- Without an error: exactly the members jsonrpc, id and result (no error) — also when the result is nil, so a
    response always carries exactly one of the two. -/
theorem marshal_result_translated (j i res : Val) :
    (run wireExt prog_response_MarshalJSON (respEnv j i res .nil)).fx =
      some [Val.ofList [.cons (.str "result") res, .cons (.str "jsonrpc") j, .cons (.str "id") i]] := by
  mgsimp [prog_response_MarshalJSON, wireExt, respEnv, Val.hashable, Val.mapSet, Val.mapDel, kvOf]

end Jrpc.Trans

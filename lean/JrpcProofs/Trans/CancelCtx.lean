import JrpcProofs.Trans.FramesLemmas
/-
  Translated `cancelCtx` (websocket.go), regenerated from /repo on every run, against `Jrpc.cancelCtx`.
-/
namespace Jrpc.Trans
open Jrpc Jrpc.MiniGo Jrpc.Generated.Progs

/-- Translated `cancelCtx`, for every frame a peer can send and every `handling` table: it returns (never panics,
    never reaches an untranslated construct) and invokes exactly the cancel functions `Jrpc.cancelCtx` says. -/
theorem cancelCtx_translated (hasID : Bool) (s : ExecState) (p : CtlParams) :
    ∃ keys, (run (frameExt p) prog_wsConn_cancelCtx (cancelEnv hasID s)).fx = some (keys.map encCancel) ∧
      Jrpc.cancelCtx s p = .ok { s with cancelled := s.cancelled ++ keys } := by
  cases p with
  | absent | nonArray =>
    refine ⟨[], ?_, ?_⟩
    · cases hasID <;> rfl
    · simp [Jrpc.cancelCtx, CtlParams.decoded]
  | null =>
    refine ⟨[], ?_, ?_⟩
    · cases hasID <;> rfl
    · simp [Jrpc.cancelCtx, CtlParams.decoded]
  | arr es =>
    cases es with
    | nil =>
      refine ⟨[], ?_, ?_⟩
      · cases hasID <;> rfl
      · simp [Jrpc.cancelCtx, CtlParams.decoded]
    | cons v rest =>
      obtain ⟨shape, text⟩ := v
      cases shape with
      | bool | arr | obj =>
        refine ⟨[], ?_, ?_⟩
        · cases hasID <;> rfl
        · simp [Jrpc.cancelCtx, CtlParams.decoded, JVal.key?]
      | null =>
        refine ⟨if NId.nil ∈ s.handling then [.nil] else [], ?_, ?_⟩
        · have hg : (encHandling s.handling).mapGet Val.nil = _ := mapGet_encHandling s.handling .nil
          cases hasID <;>
          · simp [prog_wsConn_cancelCtx, prog_normalizeID, cancelEnv, run, exec, eval, frameExt, CtlParams.decoded, MiniGo.bind, bindMany, Env.bind1, Env.set, Env.get, Val.toList, binop, errVal, Out.fx, fxOf, Val.ofList, Val.len, encParam, shapeName, unmarshalIface, Val.nth, Val.dynType, Val.hashable, hg]
            by_cases hm : NId.nil ∈ s.handling <;> simp [hm, bindMany, Env.bind1, Env.set, Env.get, logFx, Val.ofList, Val.toList, encCancel, cancelFn]
        · by_cases hm : NId.nil ∈ s.handling <;> simp [Jrpc.cancelCtx, CtlParams.decoded, JVal.key?, hm]
      | uint | num =>
        refine ⟨if s.handling.contains (.num text) then [.num text] else [], ?_, ?_⟩
        · have hg : (encHandling s.handling).mapGet (.tag "float64" (.str text)) = _ := mapGet_encHandling s.handling (.num text)
          cases hasID <;>
          · simp [prog_wsConn_cancelCtx, prog_normalizeID, cancelEnv, run, exec, eval, frameExt, CtlParams.decoded, MiniGo.bind, bindMany, Env.bind1, Env.set, Env.get, Val.toList, binop, errVal, Out.fx, fxOf, Val.ofList, Val.len, encParam, shapeName, unmarshalIface, Val.nth, Val.dynType, Val.hashable, hg]
            by_cases hm : (NId.num text) ∈ s.handling <;> simp [hm, bindMany, Env.bind1, Env.set, Env.get, logFx, Val.ofList, Val.toList, encCancel, cancelFn]
        · by_cases hm : (NId.num text) ∈ s.handling <;> simp [Jrpc.cancelCtx, CtlParams.decoded, JVal.key?, hm]
      | str =>
        refine ⟨if s.handling.contains (.str text) then [.str text] else [], ?_, ?_⟩
        · have hg : (encHandling s.handling).mapGet (.tag "string" (.str text)) = _ := mapGet_encHandling s.handling (.str text)
          cases hasID <;>
          · simp [prog_wsConn_cancelCtx, prog_normalizeID, cancelEnv, run, exec, eval, frameExt, CtlParams.decoded, MiniGo.bind, bindMany, Env.bind1, Env.set, Env.get, Val.toList, binop, errVal, Out.fx, fxOf, Val.ofList, Val.len, encParam, shapeName, unmarshalIface, Val.nth, Val.dynType, Val.hashable, hg]
            by_cases hm : (NId.str text) ∈ s.handling <;> simp [hm, bindMany, Env.bind1, Env.set, Env.get, logFx, Val.ofList, Val.toList, encCancel, cancelFn]
        · by_cases hm : (NId.str text) ∈ s.handling <;> simp [Jrpc.cancelCtx, CtlParams.decoded, JVal.key?, hm]

/-- C10 over the regenerated code: no params member a peer can put into an `xrpc.cancel` frame makes `cancelCtx` panic
    (no index out of range, no hash of an unhashable key), whatever the `handling` table holds. -/
theorem C10_cancelCtx_never_panics (hasID : Bool) (s : ExecState) (p : CtlParams) :
    (run (frameExt p) prog_wsConn_cancelCtx (cancelEnv hasID s)).isPanic = false := by
  obtain ⟨_, h, _⟩ := cancelCtx_translated hasID s p
  exact not_panic_of_fx h

end Jrpc.Trans

import Jrpc.TransDefs
import JrpcProofs.Trans.Lemmas
/-
  Translated `batchWriter` (handler.go), regenerated from /repo on every run, against `Jrpc.BatchWriter`.
-/
namespace Jrpc.Trans
open Jrpc Jrpc.MiniGo Jrpc.Generated.Progs

/-! ### batchWriter -/

open BatchWriter in
/-- Translated `batchWriter.nextElem` is `BW.nextElem`. -/
theorem bw_nextElem_translated (b : BW) :
    Out.bw (run bwExt prog_batchWriter_nextElem (bwEnv b)) = some (b.nextElem.started, b.nextElem.elemStarted) ∧
    (run bwExt prog_batchWriter_nextElem (bwEnv b)).fx = some [] := by
  cases b with
  | mk st es out => cases st <;> cases es <;> exact ⟨rfl, rfl⟩

open BatchWriter in
/-- Translated `batchWriter.Write(p)`: the flags become those of `BW.write`, and what reaches the underlying
    writer is exactly what `BW.write` appends — "[" before the first element that produces output, "," before each
    later one, nothing for an empty write. -/
theorem bw_write_translated (b : BW) (p : String) :
    Out.bw (run bwExt prog_batchWriter_Write (("p", .str p) :: bwEnv b)) = some ((b.write p).started, (b.write p).elemStarted) ∧
    ∃ added, (b.write p).out = b.out ++ added ∧
      (run bwExt prog_batchWriter_Write (("p", .str p) :: bwEnv b)).fx = some (added.map pieceVal) := by
  obtain ⟨st, es, out⟩ := b
  by_cases hp : p = ""
  · subst hp
    cases st <;> cases es <;> exact ⟨rfl, [], by simp [BW.write], rfl⟩
  · have hl : ((p.length : Int) = 0) = False := by simp [hp]
    have he : p.isEmpty = false := by simp [hp]
    have key : ∀ (added : List Piece), (BW.write ⟨st, es, out⟩ p).out = out ++ added →
        (run bwExt prog_batchWriter_Write (("p", .str p) :: bwEnv ⟨st, es, out⟩)).fx = some (added.map pieceVal) →
        Out.bw (run bwExt prog_batchWriter_Write (("p", .str p) :: bwEnv ⟨st, es, out⟩)) =
          some ((BW.write ⟨st, es, out⟩ p).started, (BW.write ⟨st, es, out⟩ p).elemStarted) →
        (Out.bw (run bwExt prog_batchWriter_Write (("p", .str p) :: bwEnv ⟨st, es, out⟩)) =
            some ((BW.write ⟨st, es, out⟩ p).started, (BW.write ⟨st, es, out⟩ p).elemStarted) ∧
          ∃ added, (BW.write ⟨st, es, out⟩ p).out = out ++ added ∧
            (run bwExt prog_batchWriter_Write (("p", .str p) :: bwEnv ⟨st, es, out⟩)).fx = some (added.map pieceVal)) :=
      fun added h1 h2 h3 => And.intro h3 ⟨added, h1, h2⟩
    cases st <;> cases es
    · exact key [.lbrack, .data p] (by simp [BW.write, he])
        (by mgsimp [prog_batchWriter_Write, bwExt, bwEnv, hl, hp, pieceVal])
        (by mgsimp [prog_batchWriter_Write, bwExt, bwEnv, Out.bw, BW.write, hl, he, hp])
    · exact key [.data p] (by simp [BW.write, he])
        (by mgsimp [prog_batchWriter_Write, bwExt, bwEnv, hl, hp, pieceVal])
        (by mgsimp [prog_batchWriter_Write, bwExt, bwEnv, Out.bw, BW.write, hl, he, hp])
    · exact key [.comma, .data p] (by simp [BW.write, he])
        (by mgsimp [prog_batchWriter_Write, bwExt, bwEnv, hl, hp, pieceVal])
        (by mgsimp [prog_batchWriter_Write, bwExt, bwEnv, Out.bw, BW.write, hl, he, hp])
    · exact key [.data p] (by simp [BW.write, he])
        (by mgsimp [prog_batchWriter_Write, bwExt, bwEnv, hl, hp, pieceVal])
        (by mgsimp [prog_batchWriter_Write, bwExt, bwEnv, Out.bw, BW.write, hl, he, hp])

open BatchWriter in
/-- Translated `batchWriter.finish` writes "]" iff something was written before. -/
theorem bw_finish_translated (b : BW) :
    ∃ added, b.finish = b.out ++ added ∧
      (run bwExt prog_batchWriter_finish (bwEnv b)).fx = some (added.map pieceVal) := by
  obtain ⟨st, es, out⟩ := b
  cases st
  · exact ⟨[], by simp [BW.finish], by cases es <;> rfl⟩
  · exact ⟨[.rbrack], by simp [BW.finish], by cases es <;> rfl⟩

end Jrpc.Trans

import Jrpc.TransDefs
import JrpcProofs.Trans.Lemmas
/-
  Translated `processFuncOut` (util.go), regenerated from /repo on every run, against `Jrpc.Call.processFuncOut`.
-/
namespace Jrpc.Trans
open Jrpc Jrpc.MiniGo Jrpc.Generated.Progs

/-! ### processFuncOut -/

/-- Translated `processFuncOut` finds the value and error results where `Jrpc.processFuncOut` says, for each of the
    four supported result shapes. -/
theorem processFuncOut_translated (o : OutShape) :
    (run (outsExt (OutShape.results o)) prog_processFuncOut outsEnv).val? =
      some (Val.ofList [optPos (Call.processFuncOut o).1, optPos (Call.processFuncOut o).2.1, .int (Call.processFuncOut o).2.2]) := by
  cases o <;> rfl

/-- … and refuses (panics at registration time, never at call time) every other shape: two results of which the
    second is not `error`, or more than two results. -/
theorem processFuncOut_rejects_two (a : Bool) :
    (run (outsExt [a, false]) prog_processFuncOut outsEnv).isPanic = true := by
  cases a <;> rfl

theorem processFuncOut_rejects_many (a b c : Bool) (rest : List Bool) :
    (run (outsExt (a :: b :: c :: rest)) prog_processFuncOut outsEnv).isPanic = true := by
  have h0 : ((rest.length : Int) + 1 + 1 + 1 = 0) = False := by simp; omega
  have h1 : ((rest.length : Int) + 1 + 1 + 1 = 1) = False := by simp; omega
  have h2 : ((rest.length : Int) + 1 + 1 + 1 = 2) = False := by simp; omega
  mgsimp [prog_processFuncOut, outsExt, outsEnv, Out.isPanic, h0, h1, h2]

end Jrpc.Trans

import Jrpc.TransDefs
import JrpcProofs.Trans.Auth
/-
  Translated `auth.WithPerm` (auth/auth.go), regenerated from /repo on every run, and its composition with the
  translated `auth.HasPerm`: the permissions a verifier attaches with `WithPerm` are exactly the set `HasPerm` later
  decides by (C19: a method runs iff the caller holds its permission).

  A context is modelled as the chain of `(key, value)` pairs `context.WithValue` builds; `ctx.Value(k)` is the first
  pair with key `k`.  The implicit conversion of the `[]Permission` argument to `interface{}` at the call of
  `context.WithValue` (which is what gives the stored value its dynamic type) is part of the extern.
-/
namespace Jrpc.Trans
open Jrpc Jrpc.MiniGo Jrpc.Generated.Progs

def permKey : Val := .tag "permKey" (.int 0)

/-- `ctx.Value(k)` over a chain of pairs. -/
def ctxLookup : Val → Val → Val
  | .cons (.cons k v) rest, key => if k = key then v else ctxLookup rest key
  | _, _ => .nil

def withPermExt : Ext
  | "context.WithValue", [ctx, k, v], env => .ok (.cons (.cons k (.tag "[]Permission" v)) ctx) env
  | fn, _, _ => .stuck fn

/-- `WithPerm(ctx, perms)` returns `ctx` extended by exactly one pair: the permission key and the given set. -/
theorem withPerm_translated (ctx : Val) (perms : List String) :
    (run withPermExt prog_auth_WithPerm [("ctx", ctx), ("permCtxKey", permKey), ("perms", Val.strs perms)]).val? =
      some (.cons (.cons permKey (.tag "[]Permission" (Val.strs perms))) ctx) := by
  unfold prog_auth_WithPerm
  mgsimp [withPermExt]

/-- Looking the permission key up in the context `WithPerm` built yields what `authExt (some perms)` — the extern
    `hasPerm_translated` is stated with — answers: the attached set, whatever the context held before (an earlier
    `WithPerm` is shadowed, other keys are untouched). -/
theorem withPerm_then_value (ctx : Val) (perms : List String) (k : Val) (env : Env) :
    authExt (some perms) "ctx.Value" [k] env =
      .ok (ctxLookup (.cons (.cons permKey (.tag "[]Permission" (Val.strs perms))) ctx) permKey) env := by
  simp [authExt, ctxLookup]

/-- Values under other keys are not disturbed by `WithPerm`. -/
theorem withPerm_other_keys (ctx : Val) (perms : List String) (k : Val) (h : k ≠ permKey) :
    ctxLookup (.cons (.cons permKey (.tag "[]Permission" (Val.strs perms))) ctx) k = ctxLookup ctx k := by
  simp [ctxLookup, Ne.symm h]

/-- Composition: a request whose verifier attached `perms` is decided by membership in `perms` alone — the defaults
    play no part, even when `perms` is empty. -/
theorem withPerm_hasPerm (perms defaults : List String) (p : String) :
    (run (authExt (some perms)) prog_auth_HasPerm (hasPermEnv defaults p)).val? = some (.bool (decide (p ∈ perms))) := by
  rw [hasPerm_translated]
  simp [Auth.hasPerm, Auth.effective]

end Jrpc.Trans

import JrpcProofs.Trans.FramesLemmas
/-
  Translated `handleChanClose` (websocket.go), regenerated from /repo on every run, against `Jrpc.handleChanClose`.
-/
namespace Jrpc.Trans
open Jrpc Jrpc.MiniGo Jrpc.Generated.Progs

/-- Translated `handleChanClose`, for every params member and every (duplicate-free) channel table: it returns,
    removes exactly the entry `Jrpc.handleChanClose` removes and calls exactly that entry's handler with `(nil, false)`. -/
theorem handleChanClose_translated (s : ExecState) (p : CtlParams) (hn : s.chanHandlers.Nodup) :
    ∃ cs : List String,
      (run (frameExt p) prog_wsConn_handleChanClose (chanEnv s)).fx = some (cs.map fun c => encCb c .nil false) ∧
      (∃ left, Out.chans (run (frameExt p) prog_wsConn_handleChanClose (chanEnv s)) = some (encChans left) ∧
        Jrpc.handleChanClose s p = .ok { s with chanHandlers := left, closedChans := s.closedChans ++ cs }) := by
  cases p with
  | absent | nonArray | null =>
    exact ⟨[], by rfl, s.chanHandlers, by rfl, by simp [Jrpc.handleChanClose, CtlParams.decoded]⟩
  | arr es =>
    match es with
    | [] => exact ⟨[], by rfl, s.chanHandlers, by rfl, by simp [Jrpc.handleChanClose, CtlParams.decoded]⟩
    | ⟨shape, text⟩ :: rest =>
      cases shape with
      | bool | num | str | arr | obj =>
        exact ⟨[], by rfl, s.chanHandlers, by rfl, by simp [Jrpc.handleChanClose, CtlParams.decoded, JVal.chanIdOf]⟩
      | null =>
        have hg : (encChans s.chanHandlers).mapGet (.int 0) = _ := mapGet_encChans s.chanHandlers "0"
        have hd : (encChans s.chanHandlers).mapDel (.int 0) = _ := mapDel_encChans s.chanHandlers "0" hn
        by_cases hm : "0" ∈ s.chanHandlers
        · refine ⟨["0"], ?_, s.chanHandlers.erase "0", ?_, ?_⟩
          · mgsimp [prog_wsConn_handleChanClose, chanEnv, frameExt, CtlParams.decoded, errVal, encParam, shapeName, unmarshalU64, Val.hashable, hg, hm, hd, encCb, hndOf]
          · mgsimp [Out.chans, prog_wsConn_handleChanClose, chanEnv, frameExt, CtlParams.decoded, errVal, encParam, shapeName, unmarshalU64, Val.hashable, hg, hm, hd, encCb, hndOf]
          · simp [Jrpc.handleChanClose, CtlParams.decoded, JVal.chanIdOf, hm]
        · refine ⟨[], ?_, s.chanHandlers, ?_, ?_⟩
          · mgsimp [prog_wsConn_handleChanClose, chanEnv, frameExt, CtlParams.decoded, errVal, encParam, shapeName, unmarshalU64, Val.hashable, hg, hm]
          · mgsimp [Out.chans, prog_wsConn_handleChanClose, chanEnv, frameExt, CtlParams.decoded, errVal, encParam, shapeName, unmarshalU64, Val.hashable, hg, hm]
          · simp [Jrpc.handleChanClose, CtlParams.decoded, JVal.chanIdOf, hm]
      | uint =>
        have hg : (encChans s.chanHandlers).mapGet (encCh text) = _ := mapGet_encChans s.chanHandlers text
        have hd : (encChans s.chanHandlers).mapDel (encCh text) = _ := mapDel_encChans s.chanHandlers text hn
        have hh := hashable_encCh text
        by_cases hm : text ∈ s.chanHandlers
        · refine ⟨[text], ?_, s.chanHandlers.erase text, ?_, ?_⟩
          · mgsimp [prog_wsConn_handleChanClose, chanEnv, frameExt, CtlParams.decoded, errVal, encParam, shapeName, unmarshalU64, hh, hg, hm, hd, encCb, hndOf]
          · mgsimp [Out.chans, prog_wsConn_handleChanClose, chanEnv, frameExt, CtlParams.decoded, errVal, encParam, shapeName, unmarshalU64, hh, hg, hm, hd, encCb, hndOf]
          · simp [Jrpc.handleChanClose, CtlParams.decoded, JVal.chanIdOf, hm]
        · refine ⟨[], ?_, s.chanHandlers, ?_, ?_⟩
          · mgsimp [prog_wsConn_handleChanClose, chanEnv, frameExt, CtlParams.decoded, errVal, encParam, shapeName, unmarshalU64, hh, hg, hm]
          · mgsimp [Out.chans, prog_wsConn_handleChanClose, chanEnv, frameExt, CtlParams.decoded, errVal, encParam, shapeName, unmarshalU64, hh, hg, hm]
          · simp [Jrpc.handleChanClose, CtlParams.decoded, JVal.chanIdOf, hm]

/-- C10 over the regenerated code: no params member of an `xrpc.ch.close` frame makes `handleChanClose` panic. -/
theorem C10_handleChanClose_never_panics (s : ExecState) (p : CtlParams) (hn : s.chanHandlers.Nodup) :
    (run (frameExt p) prog_wsConn_handleChanClose (chanEnv s)).isPanic = false := by
  obtain ⟨_, h, _⟩ := handleChanClose_translated s p hn
  exact not_panic_of_fx h

end Jrpc.Trans

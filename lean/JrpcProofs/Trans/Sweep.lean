import Jrpc.TransDefs
import JrpcProofs.Trans.Lemmas
/-
  Translated `closeInFlight` (websocket.go): the sweep that fails every pending request and cancels every handler when a
  connection ends.
-/
namespace Jrpc.Trans
open Jrpc Jrpc.MiniGo Jrpc.Generated.Progs

/-- Non-vacuity / executable check of the statement the theorem below is to carry for all inputs: two pending requests, one
    of which already holds its answer, and two handlers. -/
example :
    (run sweepExt prog_wsConn_closeInFlight (sweepEnv [(.num "1", true), (.str "a", false)] [.num "7", .nil])).fx =
      some ([deliverFx (.num "1")] ++ [encCancel (.num "7"), encCancel .nil]) := by rfl

theorem flatMap_fx1 (es : List (NId × Bool)) :
    (es.map fun e => Val.cons (encKey e.1) (reqVal e)).flatMap sweepFx1 = (es.filter (·.2)).map fun e => deliverFx e.1 := by
  induction es with
  | nil => rfl
  | cons e es ih =>
    obtain ⟨k, room⟩ := e
    rw [List.map_cons, List.flatMap_cons, ih]
    cases room <;> simp [sweepFx1, reqVal, deliverFx, List.filter]

theorem flatMap_fx2 (hs : List NId) :
    (hs.map fun k => Val.cons (encKey k) (cancelFn k)).flatMap sweepFx2 = hs.map encCancel := by
  induction hs with
  | nil => rfl
  | cons k hs ih =>
    rw [List.map_cons, List.flatMap_cons, ih]
    simp [sweepFx2, encCancel]

/-- Translated `closeInFlight`, for every `inflight` table in every iteration order, every state of the mailboxes and
    every `handling` table: it runs to completion using only *non-blocking* sends; every request whose mailbox has room
    gets exactly the connection-error response carrying its own id (a full mailbox already holds that request's
    answer and is left alone); every registered cancel function is invoked once; both tables end empty. -/
theorem closeInFlight_translated (es : List (NId × Bool)) (hs : List NId) :
    ∃ env', run sweepExt prog_wsConn_closeInFlight (sweepEnv es hs) = .ret .nil env' ∧
      fxOf env' = ((es.filter (·.2)).map fun e => deliverFx e.1) ++ hs.map encCancel ∧
      env'.get "c.inflight" = some .nil ∧ env'.get "c.handling" = some .nil := by
  unfold prog_wsConn_closeInFlight sweepEnv
  have g1 : ∀ (en : Env) (a b : Val), ((en.set "id" a).set "req" b).get "id" = some a := by
    intro en a b; rw [Env.get_set_other _ _ _ _ (by decide)]; simp
  mgsimps [Env.get, encInflight, sweepExt, kvOf, g1]
  generalize hl1 : rangeLoop _ 0 (Val.ofList (List.map _ es)) _ = r1
  obtain ⟨e1, h1, hf1, hP1⟩ := rangeLoop_fx_res hl1 (fun en => en.get "c.handling" = some (encHandling hs)) sweepFx1
    (by simp [Env.get]) (by
      intro en i x hx hP
      obtain ⟨⟨k, room⟩, _, rfl⟩ := List.mem_map.mp hx
      cases room
      · refine ⟨(en.set "id" (encKey k)).set "req" (reqVal (k, false)), ?_, ?_, ?_⟩
        · simp [reqVal, g1, Val.toList, kvOf, Val.ofList]
        · rw [fxOf_set_other _ _ _ (by decide), fxOf_set_other _ _ _ (by decide)]; simp [sweepFx1, reqVal]
        · show ((en.set "id" _).set "req" _).get "c.handling" = _
          rw [Env.get_set_other _ _ _ _ (by decide), Env.get_set_other _ _ _ _ (by decide)]; exact hP
      · refine ⟨logFx ((en.set "id" (encKey k)).set "req" (reqVal (k, true))) (deliverFxV (encKey k)), ?_, ?_, ?_⟩
        · simp [reqVal, g1, Val.toList, kvOf, Val.ofList, deliverFxV, connErrRespV]
        · rw [fxOf_logFx, fxOf_set_other _ _ _ (by decide), fxOf_set_other _ _ _ (by decide)]; simp [sweepFx1, reqVal]
        · show (logFx ((en.set "id" _).set "req" _) _).get "c.handling" = _
          rw [get_logFx_other _ _ _ (by decide), Env.get_set_other _ _ _ _ (by decide), Env.get_set_other _ _ _ _ (by decide)]
          exact hP)
  subst h1
  have hget : (e1.set "c.inflight" Val.nil).get "c.handling" = some (encHandling hs) := by
    rw [Env.get_set_other _ _ _ _ (by decide)]; exact hP1
  simp only [hget]
  generalize hl2 : rangeLoop _ 0 (encHandling hs) _ = r2
  rw [encHandling] at hl2
  obtain ⟨e2, h2, hf2, hP2⟩ := rangeLoop_fx_res hl2 (fun en => en.get "c.inflight" = some .nil) sweepFx2
    (by simp) (by
      intro en i x hx hP
      obtain ⟨k, _, rfl⟩ := List.mem_map.mp hx
      refine ⟨logFx (en.set "cancel" (cancelFn k)) (.cons (.str "cancel") (cancelFn k)), rfl, ?_, ?_⟩
      · rw [fxOf_logFx, fxOf_set_other _ _ _ (by decide)]; simp [sweepFx2]
      · show (logFx (en.set "cancel" _) _).get "c.inflight" = _
        rw [get_logFx_other _ _ _ (by decide), Env.get_set_other _ _ _ _ (by decide)]; exact hP)
  subst h2
  refine ⟨e2.set "c.handling" .nil, rfl, ?_, ?_, ?_⟩
  · rw [fxOf_set_other _ _ _ (by decide), hf2, fxOf_set_other _ _ _ (by decide), hf1, flatMap_fx1, flatMap_fx2]
    simp [fxOf, Env.get, Val.toList]
  · rw [Env.get_set_other _ _ _ _ (by decide)]; exact hP2
  · simp

end Jrpc.Trans

import Jrpc.TransDefs
import JrpcProofs.Trans.Lemmas
/-
  Translated `closeInFlight` (websocket.go): the sweep that fails every pending request and cancels every handler when a
  connection ends.
-/
namespace Jrpc.Trans
open Jrpc Jrpc.MiniGo Jrpc.Generated.Progs

/-- Non-vacuity / executable check of the statement the theorem below is to carry for all inputs: two pending requests, one
    of which already holds its answer, and two handlers. -/
example :
    (run sweepExt prog_wsConn_closeInFlight (sweepEnv [(.num "1", true), (.str "a", false)] [.num "7", .nil])).fx =
      some ([deliverFx (.num "1")] ++ [encCancel (.num "7"), encCancel .nil]) := by rfl

end Jrpc.Trans

import Jrpc.TransDefs
import JrpcProofs.Trans.Lemmas
/-
  Translated `backoff.next` (util.go) against `Jrpc.Backoff.next`.
-/
namespace Jrpc.Trans
open Jrpc Jrpc.MiniGo Jrpc.Generated.Progs

/-- A negative attempt returns the minimum delay. -/
theorem backoff_next_negative (b : Backoff) (n : Nat) (jn jd : Nat) :
    (run (backoffExt jn jd) prog_backoff_next (backoffEnv b (-(n + 1 : Nat)))).val? = some (.int (b.next none jn jd)) := by
  have : ((-(↑(n + 1) : Int)) < 0) = True := by simp
  mgsimp [prog_backoff_next, backoffExt, backoffEnv, Backoff.next, this]

/-- For attempt `a ≥ 0` the translated computation — `minf·1.5^a + jitter·minf`, clamped against the maximum in the
    float domain BEFORE the conversion to a duration — is `Backoff.next`. -/
theorem backoff_next_translated (b : Backoff) (a : Nat) (jn jd : Nat) :
    (run (backoffExt jn jd) prog_backoff_next (backoffEnv b a)).val? = some (.int (b.next (some a) jn jd)) := by
  have h0 : (((a : Nat) : Int) < 0) = False := by simp
  have hnum : ((b.minDelay : Int) * 3 ^ a * (jd : Int) + (jn : Int) * (b.minDelay : Int) * 2 ^ a) = ((b.num a jn jd : Nat) : Int) := by
    simp only [Backoff.num]; push_cast; ac_rfl
  have hden : ((2 : Int) ^ a * (jd : Int)) = ((Backoff.den a jd : Nat) : Int) := by
    simp only [Backoff.den]; push_cast; rfl
  mgsimp [prog_backoff_next, backoffExt, backoffEnv, Backoff.next, rat, h0]
  simp only [hnum, hden]
  by_cases hc : b.num a jn jd > b.maxDelay * Backoff.den a jd
  · have hc' : ((b.maxDelay : Int) * ((Backoff.den a jd : Nat) : Int) < ((b.num a jn jd : Nat) : Int)) := by exact_mod_cast hc
    mgsimp [hc, hc']
  · have hc' : ¬ ((b.maxDelay : Int) * ((Backoff.den a jd : Nat) : Int) < ((b.num a jn jd : Nat) : Int)) := by exact_mod_cast hc
    mgsimp [hc, hc', backoffExt]

end Jrpc.Trans

import Jrpc.TransDefs
import JrpcProofs.Trans.Lemmas
/-
  Lemmas about the encodings of `Jrpc.Frames` states as MiniGo values, shared by the translation theorems of the frame handlers of websocket.go:
  `normalizeID`, `handleFrame`, `cancelCtx`, `handleChanMessage`, `handleChanClose`.

  What is assumed about code that is not translated (the extern semantics `frameExt`):
    * `json.Unmarshal(raw, &params)` into `[]param` succeeds exactly for an array (one raw element each) and for
      `null` (nil slice), as `CtlParams.decoded` says;
    * `json.Unmarshal(data, &x)` of one array element into `interface{}` never fails and yields nil / bool / float64 /
      string / []interface{} / map[string]interface{} by the element's shape; into `uint64` it succeeds for an unsigned
      integer and, leaving the variable untouched, for `null`;
    * `len`, `float64(int64)`, `xerrors.Errorf` are what they are.
  These are the same assumptions `Jrpc.Frames` makes; the C10 differential checks them against the real decoder.
-/
namespace Jrpc.Trans
open Jrpc Jrpc.MiniGo Jrpc.Generated.Progs


theorem encKey_inj {a b : NId} (h : encKey a = encKey b) : a = b := by
  cases a <;> cases b <;> simp [encKey] at h <;> simp [h]



theorem mapGet_encHandling (hs : List NId) (k : NId) :
    (encHandling hs).mapGet (encKey k) = if hs.contains k then some (cancelFn k) else none := by
  induction hs with
  | nil => simp [encHandling, Val.ofList, Val.mapGet]
  | cons a hs ih =>
    simp only [encHandling, List.map_cons, Val.ofList, Val.mapGet, List.contains_cons] at ih ⊢
    by_cases h : a = k
    · subst h; simp
    · have h' : encKey a ≠ encKey k := fun e => h (encKey_inj e)
      have h'' : (k == a) = false := by simpa using fun e => h e.symm
      simp [h', h'', ih]

theorem hashable_encKey (k : NId) : (encKey k).hashable = true := by
  cases k <;> simp [encKey, Val.hashable]



theorem encCh_inj {a b : String} (h : encCh a = encCh b) : a = b := by
  unfold encCh at h
  by_cases ha : a = "0" <;> by_cases hb : b = "0" <;> simp [ha, hb] at h
  · rw [ha, hb]
  · exact h

theorem mapGet_encChans (cs : List String) (t : String) :
    (encChans cs).mapGet (encCh t) = if t ∈ cs then some (hndOf t) else none := by
  induction cs with
  | nil => simp [encChans, Val.ofList, Val.mapGet]
  | cons a cs ih =>
    simp only [encChans, List.map_cons, Val.ofList, Val.mapGet, List.mem_cons] at ih ⊢
    by_cases h : a = t
    · subst h; simp
    · have h' : encCh a ≠ encCh t := fun e => h (encCh_inj e)
      have h'' : ¬ t = a := fun e => h e.symm
      simp [h', h'', ih]

theorem hashable_encCh (t : String) : (encCh t).hashable = true := by
  unfold encCh; split <;> simp [Val.hashable]

theorem mapDel_encChans (cs : List String) (t : String) (hn : cs.Nodup) :
    (encChans cs).mapDel (encCh t) = encChans (cs.erase t) := by
  induction cs with
  | nil => simp [encChans, Val.ofList, Val.mapDel]
  | cons a cs ih =>
    have hn' := (List.nodup_cons.mp hn)
    simp only [encChans, List.map_cons, Val.ofList, Val.mapDel] at ih ⊢
    by_cases h : a = t
    · subst h
      have : (Val.ofList (cs.map fun t => (encCh t).cons (hndOf t))).mapDel (encCh a) = encChans (cs.erase a) := ih hn'.2
      rw [List.erase_of_not_mem hn'.1] at this
      simp [this, encChans]
    · have h' : encCh a ≠ encCh t := fun e => h (encCh_inj e)
      have hb : (a == t) = false := by simpa using h
      simp [h', hb, ih hn'.2, Val.ofList]


theorem not_panic_of_fx {o : Out} {l : List Val} (h : o.fx = some l) : o.isPanic = false := by
  cases o <;> simp [Out.fx, Out.isPanic] at h ⊢

end Jrpc.Trans

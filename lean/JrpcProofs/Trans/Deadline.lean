import Jrpc.TransDefs
import JrpcProofs.Trans.Lemmas
/-
  Translated read-deadline bookkeeping of a WebSocket connection (websocket.go), regenerated from /repo on every run:

  * `wsConn.resetReadDeadline` — every message read (and every ping / pong handler) pushes the read deadline to
    `now + timeout`; with keepalive off (`timeout = 0`) the connection is never given a deadline (C17: a healthy link
    stays up; a silent peer is detected after `timeout`);
  * `deadlineResetReader.Read` — the reader a frame is decoded through: byte-transparent (what the connection's reader
    returned is what the decoder gets), and a frame that has been arriving for more than 5 s pushes the deadline again
    instead of being cut off mid-frame.

  Time is integer nanoseconds; the extern semantics are stated here.
-/
namespace Jrpc.Trans
open Jrpc Jrpc.MiniGo Jrpc.Generated.Progs

/-- Externs: the clock reads `now`; `SetReadDeadline(d)` records `d` in the effect log and answers `err`;
    the underlying reader answers `(n, rerr)`; `r.reset()` is recorded. -/
def dlExt (now : Int) (err : Val) (n : Int) (rerr : Val) : Ext
  | "time.Now", [], env => .ok (.int now) env
  | ".Add", [.int a, .int b], env => .ok (.int (a + b)) env
  | "time.Since", [.int t], env => .ok (.int (now - t)) env
  | "c.conn.SetReadDeadline", [d], env => .ok err (logFx env (.cons (.str "deadline") d))
  | "r.r.Read", [_], env => .ok (.cons (.int n) (.cons rerr .nil)) env
  | "r.reset", [], env => .ok .nil (logFx env (.str "reset"))
  | fn, _, _ => .stuck fn

/-- `resetReadDeadline`: exactly one `SetReadDeadline(now + timeout)` when keepalive is on, nothing when it is off;
    it returns normally whatever the connection answers. -/
theorem resetReadDeadline_translated (now timeout : Int) (err : Val) (n : Int) (rerr : Val) :
    (run (dlExt now err n rerr) prog_wsConn_resetReadDeadline [("c.timeout", .int timeout)]).fx =
      some (if timeout > 0 then [.cons (.str "deadline") (.int (now + timeout))] else []) := by
  unfold prog_wsConn_resetReadDeadline
  by_cases ht : timeout > 0
  · by_cases he : err = .nil
    · subst he; mgsimp [dlExt, ht]
    · mgsimp [dlExt, ht, he]
  · have ht' : ¬ 0 < timeout := ht
    mgsimp [dlExt, ht, ht']

/-- The deadline a healthy read sets is strictly in the future, by exactly the configured timeout. -/
theorem resetReadDeadline_future (now timeout : Int) (h : timeout > 0) (err : Val) (n : Int) (rerr : Val) :
    ∃ d, (run (dlExt now err n rerr) prog_wsConn_resetReadDeadline [("c.timeout", .int timeout)]).fx =
      some [.cons (.str "deadline") (.int d)] ∧ d - now = timeout := by
  refine ⟨now + timeout, ?_, by omega⟩
  rw [resetReadDeadline_translated]; simp [h]

def readEnv (last : Int) : Env := [("p", .tag "[]byte" .nil), ("r.lastReset", .int last)]

/-- `deadlineResetReader.Read` is transparent: for every answer of the underlying reader, every clock reading and
    every `lastReset` it returns that very answer. -/
theorem deadlineRead_transparent (now last n : Int) (err rerr : Val) :
    (run (dlExt now err n rerr) prog_deadlineResetReader_Read (readEnv last)).val? =
      some (.cons (.int n) (.cons rerr .nil)) := by
  unfold prog_deadlineResetReader_Read
  by_cases hs : now - last > 5000000000
  · mgsimp [dlExt, readEnv, hs]
  · have hs' : ¬ 5000000000 < now - last := hs
    mgsimp [dlExt, readEnv, hs, hs']

/-- …and pushes the deadline (once) exactly when the frame has been arriving for more than 5 s since the last push. -/
theorem deadlineRead_resets (now last n : Int) (err rerr : Val) :
    (run (dlExt now err n rerr) prog_deadlineResetReader_Read (readEnv last)).fx =
      some (if now - last > 5000000000 then [.str "reset"] else []) := by
  unfold prog_deadlineResetReader_Read
  by_cases hs : now - last > 5000000000
  · mgsimp [dlExt, readEnv, hs]
  · have hs' : ¬ 5000000000 < now - last := hs
    mgsimp [dlExt, readEnv, hs, hs']

/-- non-vacuity: both branches are reached. -/
example : (run (dlExt 6000000001 .nil 3 .nil) prog_deadlineResetReader_Read (readEnv 1)).fx = some [.str "reset"]
    ∧ (run (dlExt 5 .nil 3 .nil) prog_deadlineResetReader_Read (readEnv 1)).fx = some [] := by
  constructor <;> rfl

end Jrpc.Trans

import Jrpc.TransDefs
import JrpcProofs.Trans.Lemmas
/-
  Translated `waitReadCloser` (httpio/reader.go), regenerated from /repo on every run, against `Jrpc.Reader`.
-/
namespace Jrpc.Trans
open Jrpc Jrpc.MiniGo Jrpc.Generated.Progs

/-! ### httpio.waitReadCloser -/

open Reader in
/-- Translated `waitReadCloser.Read` against `Reader.readStep`, for every state and every answer of the wrapped body
    that the model does not refuse: the sticky error, the `wait` channel and the number of `close(w.wait)` executions
    end up as the model says; a remembered error is returned without touching the body; nothing panics (in
    particular `wait` is never closed twice). -/
theorem wrc_read_translated (w : WRC) (want got : Nat) (eofWithData : Bool)
    (hok : (readStep w want got eofWithData).2 ≠ .refused) :
    let eof := (w.rest.drop got).isEmpty && (got == 0 || eofWithData)
    let o := run (wrcExt got eof) prog_httpio_waitReadCloser_Read (("p", .tag "buf" (.int want)) :: wrcEnv w)
    let w' := (readStep w want got eofWithData).1
    Out.wrc o = some (w'.stickyEOF, w'.waitClosed, (w'.closeCount : Int)) ∧
    o.fx = some (if w.stickyEOF then [] else [.str "body.Read"]) ∧
    o.val? = some (if w.stickyEOF then .cons (.int 0) (.cons eofErr .nil)
                   else .cons (.int got) (.cons (if eof then eofErr else .nil) .nil)) := by
  obtain ⟨rest, sticky, wc, cc⟩ := w
  intro eof o w'
  cases sticky
  · -- no remembered error: the body is read
    have hnr : (got > want || got > rest.length || (got == 0 && !rest.isEmpty && want > 0)) = false := by
      cases h : (got > want || got > rest.length || (got == 0 && !rest.isEmpty && want > 0))
      · rfl
      · simp [readStep, h] at hok
    cases he : eof <;> cases wc <;>
      simp only [o, w', readStep, hnr, eof] at * <;>
      (simp only [he]; mgsimp [prog_httpio_waitReadCloser_Read, prog_httpio_waitReadCloser_Read_lit1, wrcExt, wrcEnv, Out.wrc, WRC.closeWait, eofErr])
  · cases wc <;> mgsimp [o, w', readStep, prog_httpio_waitReadCloser_Read, wrcExt, wrcEnv, Out.wrc, eofErr]

open Reader in
/-- Translated `waitReadCloser.Close`: closes `wait` once (`WRC.closeWait`), then closes the body — never a panic,
    however often and in whatever state it is called. -/
theorem wrc_close_translated (w : WRC) (n : Nat) (e : Bool) :
    let o := run (wrcExt n e) prog_httpio_waitReadCloser_Close (wrcEnv w)
    Out.wrc o = some (w.closeWait.stickyEOF, w.closeWait.waitClosed, (w.closeWait.closeCount : Int)) ∧
    o.fx = some [.str "body.Close"] := by
  obtain ⟨rest, sticky, wc, cc⟩ := w
  cases sticky <;> cases wc <;>
    mgsimp [prog_httpio_waitReadCloser_Close, prog_httpio_waitReadCloser_Close_lit1, wrcExt, wrcEnv, Out.wrc, WRC.closeWait, eofErr]

end Jrpc.Trans

import Jrpc.TransDefs
import JrpcProofs.Trans.Lemmas
/-
  Translated `auth.Handler.ServeHTTP` against `Jrpc.Auth.serveHTTP`.
-/
namespace Jrpc.Trans
open Jrpc Jrpc.MiniGo Jrpc.Generated.Progs

theorem bearer_toList : "Bearer ".toList = Auth.bearer := rfl

/-- Translated `ServeHTTP` does exactly one of: call the next handler with nothing attached (no token), call it with
    the verifier's permissions attached (header wins over query), or answer 401 without calling it — as
    `Auth.serveHTTP` says, for every header, query value and verifier. -/
theorem serveHTTP_translated (header query : String) (verify : List Char → Option (List String)) :
    (run (httpExt header query verify) prog_auth_Handler_ServeHTTP httpEnv).fx
      = some [encHttpOut (Auth.serveHTTP header.toList query.toList verify)] := by
  by_cases hh : header = ""
  · subst hh
    by_cases hq : query = ""
    · subst hq
      rfl
    · have hq' : ¬ query.toList = [] := by simpa using hq
      have hb : ("Bearer " ++ query) ≠ "" := by
        intro h; have := congrArg String.toList h; simp at this
      have hpre : ("Bearer ".toList).isPrefixOf ("Bearer " ++ query).toList = true := by simp
      have hdrop : String.ofList (("Bearer " ++ query).toList.drop "Bearer ".toList.length) = query := by
        apply String.toList_inj.mp; simp
      have hpre' : Auth.bearer.isPrefixOf (Auth.bearer ++ query.toList) = true := by simp
      cases hv : verify query.toList with
      | none =>
        mgsimp [prog_auth_Handler_ServeHTTP, httpExt, httpEnv, hq, hb, hpre, hdrop, hv, encHttpOut, Auth.serveHTTP, hq', hpre', errVal]
      | some ps =>
        mgsimp [prog_auth_Handler_ServeHTTP, httpExt, httpEnv, hq, hb, hpre, hdrop, hv, encHttpOut, Auth.serveHTTP, hq', hpre']
  · have hh' : ¬ header.toList = [] := by simpa using hh
    by_cases hp : ("Bearer ".toList).isPrefixOf header.toList = true
    · have hp' : Auth.bearer.isPrefixOf header.toList = true := hp
      have hp3 := hp
      simp at hp3
      have hp4 : ['B', 'e', 'a', 'r', 'e', 'r', ' '].isPrefixOf header.toList = true := hp
      have hdrop : (String.ofList (header.toList.drop 7)).toList = header.toList.drop Auth.bearer.length := by
        simp; rfl
      cases hv : verify (header.toList.drop Auth.bearer.length) with
      | none =>
        mgsimp [prog_auth_Handler_ServeHTTP, httpExt, httpEnv, hh, hp3, hp4, hdrop, hv, encHttpOut, Auth.serveHTTP, hh', hp', errVal]
      | some ps =>
        mgsimp [prog_auth_Handler_ServeHTTP, httpExt, httpEnv, hh, hp3, hp4, hdrop, hv, encHttpOut, Auth.serveHTTP, hh', hp']
    · have hp' : Auth.bearer.isPrefixOf header.toList = false := by
        cases h : Auth.bearer.isPrefixOf header.toList
        · rfl
        · exact absurd h hp
      have hp3 := hp
      simp at hp3
      have hp4 : ['B', 'e', 'a', 'r', 'e', 'r', ' '].isPrefixOf header.toList = false := hp'
      mgsimp [prog_auth_Handler_ServeHTTP, httpExt, httpEnv, hh, hp3, hp4, encHttpOut, Auth.serveHTTP, hh', hp']

end Jrpc.Trans

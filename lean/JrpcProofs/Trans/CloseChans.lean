import Jrpc.TransDefs
import JrpcProofs.Trans.FramesLemmas
/-
  Translated `closeChans` (websocket.go): the sweep that closes every client channel when a connection ends or the
  client is closed.
-/
namespace Jrpc.Trans
open Jrpc Jrpc.MiniGo Jrpc.Generated.Progs

/-- A loop over the entries of the channel table in which every iteration removes its own entry and tells its handler:
    all handlers are told, in order, and the table ends empty. -/
theorem closeLoop (step : Env → Nat → Val → Res)
    (hstep : ∀ (en : Env) (i : Nat) (c : String) (rest : List String), (c :: rest).Nodup →
      en.get "c.chanHandlers" = some (encChans (c :: rest)) →
      ∃ en', step en i (.cons (encCh c) (hndOf c)) = .normal en' ∧ fxOf en' = fxOf en ++ [encCb c .nil false] ∧
        en'.get "c.chanHandlers" = some (encChans rest)) :
    ∀ (cs : List String) (i : Nat) (env : Env), cs.Nodup → env.get "c.chanHandlers" = some (encChans cs) →
      ∃ env', rangeLoop step i (encChans cs) env = .normal env' ∧
        fxOf env' = fxOf env ++ cs.map (fun c => encCb c .nil false) ∧
        env'.get "c.chanHandlers" = some (encChans []) := by
  intro cs
  induction cs with
  | nil => intro i env _ h; exact ⟨env, by simp [encChans, Val.ofList, rangeLoop], by simp, h⟩
  | cons c cs ih =>
    intro i env hn h
    obtain ⟨e1, h1, hf1, hg1⟩ := hstep env i c cs hn h
    obtain ⟨e2, h2, hf2, hg2⟩ := ih (i + 1) e1 (List.nodup_cons.mp hn).2 hg1
    refine ⟨e2, ?_, ?_, hg2⟩
    · have : rangeLoop step (i + 1) (Val.ofList (cs.map fun t => Val.cons (encCh t) (hndOf t))) e1 = .normal e2 := h2
      simp [encChans, Val.ofList, rangeLoop, h1, this]
    · simp [hf2, hf1, List.append_assoc]

theorem closeLoop_res {step : Env → Nat → Val → Res} {cs : List String} {i : Nat} {env : Env} {r : Res}
    (hl : rangeLoop step i (encChans cs) env = r) (hn : cs.Nodup) (hget : env.get "c.chanHandlers" = some (encChans cs))
    (hstep : ∀ (en : Env) (i : Nat) (c : String) (rest : List String), (c :: rest).Nodup →
      en.get "c.chanHandlers" = some (encChans (c :: rest)) →
      ∃ en', step en i (.cons (encCh c) (hndOf c)) = .normal en' ∧ fxOf en' = fxOf en ++ [encCb c .nil false] ∧
        en'.get "c.chanHandlers" = some (encChans rest)) :
    ∃ env', r = .normal env' ∧ fxOf env' = fxOf env ++ cs.map (fun c => encCb c .nil false) ∧
      env'.get "c.chanHandlers" = some (encChans []) := by
  subst hl
  exact closeLoop step hstep cs i env hn hget

/-- Translated `closeChans`, for every duplicate-free channel table in every iteration order: it runs to completion, calls
    every registered sink exactly once with `(nil, false)` — the close — and leaves the table empty. -/
theorem closeChans_translated (cs : List String) (hn : cs.Nodup) :
    ∃ env', run chansExt prog_wsConn_closeChans [("c.chanHandlers", encChans cs)] = .ret .nil env' ∧
      fxOf env' = cs.map (fun c => encCb c .nil false) ∧
      env'.get "c.chanHandlers" = some (encChans []) := by
  unfold prog_wsConn_closeChans
  mgsimps [Env.get, chansExt]
  generalize hl : rangeLoop _ 0 (encChans cs) _ = r
  obtain ⟨e1, h1, hf1, hg1⟩ := closeLoop_res hl hn (by simp [Env.get]) (by
    intro en i c rest hnd h
    have a1 : (en.set "chid" (encCh c)).get "c.chanHandlers" = some (encChans (c :: rest)) := by
      rw [Env.get_set_other _ _ _ _ (by decide)]; exact h
    have a2 : ((en.set "chid" (encCh c)).set "hnd" (hndOf c)).get "chid" = some (encCh c) := by
      rw [Env.get_set_other _ _ _ _ (by decide)]; simp
    have a3 : ((en.set "chid" (encCh c)).set "hnd" (hndOf c)).get "c.chanHandlers" = some (encChans (c :: rest)) := by
      rw [Env.get_set_other _ _ _ _ (by decide)]; exact a1
    have a4 : (encChans (c :: rest)).mapGet (encCh c) = some (hndOf c) := by
      rw [mapGet_encChans]; simp
    have a5 : (encChans (c :: rest)).mapDel (encCh c) = encChans rest := by
      rw [mapDel_encChans _ _ hnd]; simp
    have a6 : (((en.set "chid" (encCh c)).set "hnd" (hndOf c)).set "c.chanHandlers" (encChans rest)).get "hnd" = some (hndOf c) := by
      rw [Env.get_set_other _ _ _ _ (by decide)]; simp
    refine ⟨logFx (((en.set "chid" (encCh c)).set "hnd" (hndOf c)).set "c.chanHandlers" (encChans rest))
      (encCb c .nil false), ?_, ?_, ?_⟩
    · simp [a1, a2, a3, a4, a5, a6, hashable_encCh, Val.toList, encCb]
    · rw [fxOf_logFx, fxOf_set_other _ _ _ (by decide), fxOf_set_other _ _ _ (by decide), fxOf_set_other _ _ _ (by decide)]
    · rw [get_logFx_other _ _ _ (by decide)]; simp)
  subst h1
  exact ⟨e1, rfl, by simpa [fxOf, Env.get, Val.toList] using hf1, hg1⟩

end Jrpc.Trans

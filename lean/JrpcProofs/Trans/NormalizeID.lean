import JrpcProofs.Trans.FramesLemmas
/-
  Translated `normalizeID` (websocket.go), regenerated from /repo on every run, against `Jrpc.normalizeID`.
-/
namespace Jrpc.Trans
open Jrpc Jrpc.MiniGo Jrpc.Generated.Progs

/-! ### normalizeID -/

/-- Translated `normalizeID`: string, float64 and nil pass unchanged, the int64 counter becomes the float64 with
    the same decimal text, every other dynamic type is an error — exactly `Jrpc.normalizeID`. -/
theorem normalizeID_translated (badTy : String) (w : WireId)
    (hb : badTy ≠ "string" ∧ badTy ≠ "float64" ∧ badTy ≠ "nil" ∧ badTy ≠ "int64") :
    (run (frameExt .absent) prog_normalizeID [("id", encId badTy w)]).val? =
      match normalizeID w with
      | some k => some (.cons (encKey k) (.cons .nil .nil))
      | none => some (.cons .nil (.cons (errVal "xerrors") .nil)) := by
  obtain ⟨h1, h2, h3, h4⟩ := hb
  unfold prog_normalizeID
  cases w <;>
    simp [run, exec, eval, frameExt, encId, encKey, normalizeID, Env.set, Env.get, Val.dynType, Val.payload,
      Val.toList, Out.val?, Ne.symm h1, Ne.symm h2, Ne.symm h3, Ne.symm h4]

end Jrpc.Trans

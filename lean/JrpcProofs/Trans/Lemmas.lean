import Jrpc.MiniGo
/-
  Generic lemmas about the MiniGo interpreter used by the translation theorems.
-/
namespace Jrpc.MiniGo

@[simp] theorem Val.toList_ofList (l : List Val) : (Val.ofList l).toList = l := by
  induction l with
  | nil => rfl
  | cons a l ih => simp [Val.ofList, Val.toList, ih]

@[simp] theorem Val.len_ofList (l : List Val) : (Val.ofList l).len = l.length := by
  induction l with
  | nil => rfl
  | cons a l ih => simp [Val.ofList, Val.len, ih]

theorem Val.nth_ofList (l : List Val) (n : Nat) : (Val.ofList l).nth n = l[n]? := by
  induction l generalizing n with
  | nil => cases n <;> rfl
  | cons a l ih => cases n <;> simp [Val.ofList, Val.nth, ih]

@[simp] theorem Env.get_set_same (env : Env) (x : String) (v : Val) : (env.set x v).get x = some v := by
  induction env with
  | nil => simp [Env.set, Env.get]
  | cons kv rest ih =>
    obtain ⟨k, w⟩ := kv
    by_cases h : k = x <;> simp [Env.set, Env.get, h, ih]

theorem Env.get_set_other (env : Env) (x y : String) (v : Val) (h : y ≠ x) : (env.set x v).get y = env.get y := by
  induction env with
  | nil => simp [Env.set, Env.get]; intro h'; exact absurd h'.symm h
  | cons kv rest ih =>
    obtain ⟨k, w⟩ := kv
    by_cases hk : k = x
    · subst hk
      have : k ≠ y := fun e => h e.symm
      simp [Env.set, Env.get, this]
    · by_cases hy : k = y
      · subst hy; simp [Env.set, Env.get, hk]
      · simp [Env.set, Env.get, hk, hy, ih]

@[simp] theorem Val.nth_zero (a r : Val) : (Val.cons a r).nth 0 = some a := rfl
@[simp] theorem Val.nth_one (a b r : Val) : (Val.cons a (.cons b r)).nth 1 = some b := rfl
@[simp] theorem Val.nth_two (a b c r : Val) : (Val.cons a (.cons b (.cons c r))).nth 2 = some c := rfl

@[simp] theorem int_succ_lt_one (n : Nat) : ((n : Int) + 1 < 1) = False := by
  simp; omega

@[simp] theorem int_succ_succ_lt_two (n : Nat) : ((n : Int) + 1 + 1 < 2) = False := by
  simp; omega

/-- A search loop: every iteration either returns `r` (when `hit`) or goes on with an environment that still
    satisfies the invariant `P`.  The loop returns `r` iff some element hits. -/
theorem rangeLoop_search (step : Env → Nat → Val → Res) (P : Env → Prop) (hit : Val → Bool) (r : Val)
    (hstep : ∀ en i x, P en →
      (hit x = true → ∃ en', step en i x = .returned r en') ∧
      (hit x = false → ∃ en', step en i x = .normal en' ∧ P en')) :
    ∀ (vs : List Val) (i : Nat) (env : Env), P env →
      (vs.any hit = true → ∃ en', rangeLoop step i (Val.ofList vs) env = .returned r en') ∧
      (vs.any hit = false → ∃ en', rangeLoop step i (Val.ofList vs) env = .normal en' ∧ P en') := by
  intro vs
  induction vs with
  | nil => intro i env hP; simp [Val.ofList, rangeLoop]; exact hP
  | cons v vs ih =>
    intro i env hP
    have hs := hstep env i v hP
    cases hv : hit v with
    | true =>
      obtain ⟨en', he⟩ := hs.1 hv
      simp [Val.ofList, rangeLoop, he, hv]
    | false =>
      obtain ⟨en', he, hP'⟩ := hs.2 hv
      have := ih (i + 1) en' hP'
      simp only [Val.ofList, rangeLoop, he, List.any_cons, hv, Bool.false_or]
      exact this

/-- The same, in the form used after `generalize`: the loop's result is named. -/
theorem rangeLoop_search_res {step : Env → Nat → Val → Res} {vs : List Val} {i : Nat} {env : Env} {res : Res}
    (P : Env → Prop) (hit : Val → Bool) (r : Val)
    (hs : rangeLoop step i (Val.ofList vs) env = res)
    (hP : P env)
    (hstep : ∀ en i x, P en →
      (hit x = true → ∃ en', step en i x = .returned r en') ∧
      (hit x = false → ∃ en', step en i x = .normal en' ∧ P en')) :
    (vs.any hit = true → ∃ en', res = .returned r en') ∧
    (vs.any hit = false → ∃ en', res = .normal en' ∧ P en') := by
  subst hs
  exact rangeLoop_search step P hit r hstep vs i env hP

@[simp] theorem fxOf_logFx (env : Env) (v : Val) : fxOf (logFx env v) = fxOf env ++ [v] := by
  simp [fxOf, logFx]

theorem fxOf_set_other (env : Env) (x : String) (v : Val) (h : "$fx" ≠ x) : fxOf (env.set x v) = fxOf env := by
  simp [fxOf, Env.get_set_other env x "$fx" v h]

theorem get_logFx_other (env : Env) (y : String) (v : Val) (h : y ≠ "$fx") : (logFx env v).get y = env.get y := by
  simp [logFx, Env.get_set_other _ _ _ _ h]

/-- A loop whose every iteration runs to completion, appends `f x` to the effect log and preserves `P`: the loop
    runs to completion, appends the concatenation, and preserves `P`. -/
theorem rangeLoop_fx (step : Env → Nat → Val → Res) (P : Env → Prop) (f : Val → List Val) (xs : List Val)
    (hstep : ∀ en i x, x ∈ xs → P en → ∃ en', step en i x = .normal en' ∧ fxOf en' = fxOf en ++ f x ∧ P en') :
    ∀ (i : Nat) (env : Env), P env →
      ∃ env', rangeLoop step i (Val.ofList xs) env = .normal env' ∧ fxOf env' = fxOf env ++ xs.flatMap f ∧ P env' := by
  induction xs with
  | nil => intro i env hP; exact ⟨env, by simp [Val.ofList, rangeLoop], by simp, hP⟩
  | cons x xs ih =>
    intro i env hP
    obtain ⟨e1, h1, hf1, hP1⟩ := hstep env i x (by simp) hP
    obtain ⟨e2, h2, hf2, hP2⟩ := ih (fun en i y hy => hstep en i y (by simp [hy])) (i + 1) e1 hP1
    refine ⟨e2, ?_, ?_, hP2⟩
    · simp [Val.ofList, rangeLoop, h1, h2]
    · simp [hf2, hf1, List.append_assoc]

/-- The same, in the form used after `generalize`: the loop's result is named (and fixes `step` by unification). -/
theorem rangeLoop_fx_res {step : Env → Nat → Val → Res} {xs : List Val} {i : Nat} {env : Env} {res : Res}
    (hl : rangeLoop step i (Val.ofList xs) env = res) (P : Env → Prop) (f : Val → List Val) (hP : P env)
    (hstep : ∀ en i x, x ∈ xs → P en → ∃ en', step en i x = .normal en' ∧ fxOf en' = fxOf en ++ f x ∧ P en') :
    ∃ env', res = .normal env' ∧ fxOf env' = fxOf env ++ xs.flatMap f ∧ P env' := by
  subst hl
  exact rangeLoop_fx step P f xs hstep i env hP

/-- `mgsimp [extra lemmas]`: symbolic evaluation of a MiniGo run by `simp` with the interpreter's equations. -/
syntax "mgsimp" ("[" Lean.Parser.Tactic.simpLemma,* "]")? : tactic
macro_rules
  | `(tactic| mgsimp) => `(tactic| simp [run, exec, eval, MiniGo.bind, bindMany, Env.bind1, Env.set, Env.get,
      Val.toList, Val.ofList, Val.len, Val.dynType, Val.payload, binop, unop, Out.fx, Out.val?, fxOf, logFx])
  | `(tactic| mgsimp [$ts,*]) => `(tactic| simp [run, exec, eval, MiniGo.bind, bindMany, Env.bind1, Env.set, Env.get,
      Val.toList, Val.ofList, Val.len, Val.dynType, Val.payload, binop, unop, Out.fx, Out.val?, fxOf, logFx, $ts,*])

/-- `mgsimps`: the same for a *symbolic* environment: `Env.set` / `Env.get` are not unfolded, look-ups go through
    `Env.get_set_same` and the instances of `Env.get_set_other` given as extra lemmas. -/
syntax "mgsimps" ("[" Lean.Parser.Tactic.simpLemma,* "]")? : tactic
macro_rules
  | `(tactic| mgsimps) => `(tactic| simp [run, exec, eval, MiniGo.bind, bindMany, Env.bind1,
      Val.toList, Val.ofList, Val.len, Val.dynType, Val.payload, binop, unop, Out.fx, Out.val?])
  | `(tactic| mgsimps [$ts,*]) => `(tactic| simp [run, exec, eval, MiniGo.bind, bindMany, Env.bind1,
      Val.toList, Val.ofList, Val.len, Val.dynType, Val.payload, binop, unop, Out.fx, Out.val?, $ts,*])

end Jrpc.MiniGo

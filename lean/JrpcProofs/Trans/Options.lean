import Jrpc.TransDefs
import JrpcProofs.Trans.Lemmas
/-
  Translated client options (options.go): whatever else is given and in whatever order, `WithNoReconnect` sticks.
-/
namespace Jrpc.Trans
open Jrpc Jrpc.MiniGo Jrpc.Generated.Progs

theorem get_noReconnect_set (env : Env) (x : String) (v : Val) (h : "c.noReconnect" ≠ x) :
    (env.set x v).get "c.noReconnect" = env.get "c.noReconnect" := Env.get_set_other env x "c.noReconnect" v h

/-- The bounds the option configures are sane for every pair given: a positive minimum, a maximum not below it — the
    hypotheses of `C05_backoff` (repair F47). -/
theorem eff_sane (a b : Int) : 0 < effMin a ∧ effMin a ≤ effMax a b := by
  unfold effMax effMin
  constructor
  · split <;> omega
  · simp only []
    split <;> split <;> (try split) <;> omega

/-- What `WithReconnectBackoff(a, b)` does to any configuration: it runs to completion, configures exactly
    `(effMin a, effMax a b)` and leaves `noReconnect` alone. -/
theorem applyOpt_backoff (a b : Int) (env : Env) :
    ∃ env', applyOpt (.backoff a b) env = some env' ∧
      env'.get "c.reconnectBackoff" = some (backoffVal (effMin a) (effMax a b)) ∧
      env'.get "c.noReconnect" = env.get "c.noReconnect" := by
  by_cases ha : a ≤ 0 <;> by_cases hb : b ≤ 0
  · simp (disch := decide) [applyOpt, prog_WithReconnectBackoff_lit1, run, exec, eval, MiniGo.bind, bindMany, Env.bind1,
      Val.toList, Val.ofList, binop, Out.env?, optExt, kvOf, Env.get_set_other, ha, hb]
    simp [backoffVal, effMin, effMax, ha, hb, Val.ofList]
  · by_cases hc : b < 100000000
    all_goals
      simp (disch := decide) [applyOpt, prog_WithReconnectBackoff_lit1, run, exec, eval, MiniGo.bind, bindMany, Env.bind1,
        Val.toList, Val.ofList, binop, Out.env?, optExt, kvOf, Env.get_set_other, ha, hb, hc]
      simp [backoffVal, effMin, effMax, ha, hb, hc, Val.ofList]
  · by_cases hc : 5000000000 < a
    all_goals
      simp (disch := decide) [applyOpt, prog_WithReconnectBackoff_lit1, run, exec, eval, MiniGo.bind, bindMany, Env.bind1,
        Val.toList, Val.ofList, binop, Out.env?, optExt, kvOf, Env.get_set_other, ha, hb, hc]
      simp [backoffVal, effMin, effMax, ha, hb, hc, Val.ofList]
  · by_cases hc : b < a
    all_goals
      simp (disch := decide) [applyOpt, prog_WithReconnectBackoff_lit1, run, exec, eval, MiniGo.bind, bindMany, Env.bind1,
        Val.toList, Val.ofList, binop, Out.env?, optExt, kvOf, Env.get_set_other, ha, hb, hc]
      simp [backoffVal, effMin, effMax, ha, hb, hc, Val.ofList]

/-- What the other options do to the configuration, for every configuration. -/
theorem applyOpt_eq_simple (o : Opt) (env : Env) (h : ∀ a b, o ≠ .backoff a b) :
    applyOpt o env = some (match o with
      | .noReconnect => env.set "c.noReconnect" (.bool true)
      | .backoff _ _ => env
      | .ping d => (env.set "d" (.int d)).set "c.pingInterval" (.int d)
      | .timeout d => (env.set "d" (.int d)).set "c.timeout" (.int d)) := by
  cases o with
  | noReconnect => mgsimps [applyOpt, optExt, Out.env?, prog_WithNoReconnect_lit1]
  | backoff a b => exact absurd rfl (h a b)
  | ping d => mgsimps [applyOpt, optExt, Out.env?, prog_WithPingInterval_lit1]
  | timeout d => mgsimps [applyOpt, optExt, Out.env?, prog_WithTimeout_lit1]

/-- Every option runs to completion on every configuration. -/
theorem applyOpt_total (o : Opt) (env : Env) : ∃ env', applyOpt o env = some env' := by
  cases o with
  | backoff a b => obtain ⟨e, h, _⟩ := applyOpt_backoff a b env; exact ⟨e, h⟩
  | noReconnect => exact ⟨_, applyOpt_eq_simple .noReconnect env (by intro a b h; cases h)⟩
  | ping d => exact ⟨_, applyOpt_eq_simple (.ping d) env (by intro a b h; cases h)⟩
  | timeout d => exact ⟨_, applyOpt_eq_simple (.timeout d) env (by intro a b h; cases h)⟩

/-- `WithNoReconnect` sets the flag … -/
theorem applyOpt_noReconnect_sets (env : Env) :
    ∃ env', applyOpt .noReconnect env = some env' ∧ env'.get "c.noReconnect" = some (.bool true) :=
  ⟨_, applyOpt_eq_simple .noReconnect env (by intro a b h; cases h), by simp⟩

/-- … and no option ever clears it. -/
theorem applyOpt_keeps_noReconnect (o : Opt) (env env' : Env)
    (h : applyOpt o env = some env') (hset : env.get "c.noReconnect" = some (.bool true)) :
    env'.get "c.noReconnect" = some (.bool true) := by
  cases o with
  | noReconnect =>
    rw [applyOpt_eq_simple .noReconnect env (by intro a b h; cases h)] at h
    cases h; simp
  | backoff a b =>
    obtain ⟨e, he, _, hk⟩ := applyOpt_backoff a b env
    rw [he] at h; cases h
    rw [hk]; exact hset
  | ping d =>
    rw [applyOpt_eq_simple (.ping d) env (by intro a b h; cases h)] at h
    cases h
    show ((env.set "d" _).set "c.pingInterval" _).get "c.noReconnect" = _
    rw [get_noReconnect_set _ _ _ (by decide), get_noReconnect_set _ _ _ (by decide)]
    exact hset
  | timeout d =>
    rw [applyOpt_eq_simple (.timeout d) env (by intro a b h; cases h)] at h
    cases h
    show ((env.set "d" _).set "c.timeout" _).get "c.noReconnect" = _
    rw [get_noReconnect_set _ _ _ (by decide), get_noReconnect_set _ _ _ (by decide)]
    exact hset

theorem applyOpts_keeps (os : List Opt) (env env' : Env)
    (h : applyOpts os env = some env') (hset : env.get "c.noReconnect" = some (.bool true)) :
    env'.get "c.noReconnect" = some (.bool true) := by
  induction os generalizing env with
  | nil => simp [applyOpts] at h; subst h; exact hset
  | cons o os ih =>
    simp only [applyOpts] at h
    cases ho : applyOpt o env with
    | none => simp [ho] at h
    | some e1 =>
      simp [ho] at h
      exact ih e1 h (applyOpt_keeps_noReconnect o env e1 ho hset)

/-- C05 ("a no-reconnect client never redials"), configuration half, over the regenerated option closures: if
    `WithNoReconnect()` is among the options — before or after `WithReconnectBackoff`, `WithPingInterval`,
    `WithTimeout`, any number of them — the configuration ends with `noReconnect = true`. (`websocketClient` then passes a
    nil `connFactory`, and `C05_noredial` says a connection without a factory never dials.) -/
theorem noReconnect_sticks (os : List Opt) (env : Env) (h : Opt.noReconnect ∈ os) :
    ∃ env', applyOpts os env = some env' ∧ env'.get "c.noReconnect" = some (.bool true) := by
  induction os generalizing env with
  | nil => cases h
  | cons o os ih =>
    obtain ⟨e1, h1⟩ := applyOpt_total o env
    simp only [applyOpts, h1, Option.bind_some]
    by_cases ho : o = .noReconnect
    · subst ho
      obtain ⟨e2, h2, hg⟩ := applyOpt_noReconnect_sets env
      rw [h1] at h2; cases h2
      -- the rest runs to completion and keeps the flag
      have tot : ∀ (l : List Opt) (e : Env), ∃ e', applyOpts l e = some e' := by
        intro l
        induction l with
        | nil => intro e; exact ⟨e, rfl⟩
        | cons a l ihl =>
          intro e
          obtain ⟨ea, ha⟩ := applyOpt_total a e
          obtain ⟨el, hl⟩ := ihl ea
          exact ⟨el, by simp [applyOpts, ha, hl]⟩
      obtain ⟨e3, h3⟩ := tot os e1
      exact ⟨e3, h3, applyOpts_keeps os e1 e3 h3 hg⟩
    · have hin : Opt.noReconnect ∈ os := by
        cases h with
        | head => exact absurd rfl ho
        | tail _ ht => exact ht
      exact ih e1 hin

/-- C05 ("redial attempts are spaced by the configured backoff, never a busy loop"), configuration half, over the
    regenerated option closure: whatever pair `WithReconnectBackoff` is given — zero, negative, maximum below minimum — the
    bounds it configures satisfy the hypotheses of `C05_backoff` (`0 < minDelay ≤ maxDelay`), so every redial delay lies in
    `[minDelay, maxDelay]` with a positive lower end (repair F47). -/
theorem backoff_option_sane (a b : Int) (env : Env) :
    ∃ env', applyOpt (.backoff a b) env = some env' ∧
      env'.get "c.reconnectBackoff" = some (backoffVal (effMin a) (effMax a b)) ∧
      0 < effMin a ∧ effMin a ≤ effMax a b := by
  obtain ⟨e, h, hg, _⟩ := applyOpt_backoff a b env
  exact ⟨e, h, hg, eff_sane a b⟩

/-- Non-vacuity: the order the fourth round's seeded change needed. -/
example : ∃ env', applyOpts [.noReconnect, .backoff 100 5000, .timeout 30] [] = some env' ∧
    env'.get "c.noReconnect" = some (.bool true) := noReconnect_sticks _ _ (by simp)

end Jrpc.Trans

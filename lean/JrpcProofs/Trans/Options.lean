import Jrpc.TransDefs
import JrpcProofs.Trans.Lemmas
/-
  Translated client options (options.go): whatever else is given and in whatever order, `WithNoReconnect` sticks.
-/
namespace Jrpc.Trans
open Jrpc Jrpc.MiniGo Jrpc.Generated.Progs

theorem get_noReconnect_set (env : Env) (x : String) (v : Val) (h : "c.noReconnect" ≠ x) :
    (env.set x v).get "c.noReconnect" = env.get "c.noReconnect" := Env.get_set_other env x "c.noReconnect" v h

theorem get_min_of_max (env : Env) (a b : Val) :
    ((env.set "minDelay" a).set "maxDelay" b).get "minDelay" = some a := by
  rw [Env.get_set_other _ _ _ _ (by decide)]; simp

/-- What each option does to the configuration, for every configuration. -/
theorem applyOpt_eq (o : Opt) (env : Env) :
    applyOpt o env = some (match o with
      | .noReconnect => env.set "c.noReconnect" (.bool true)
      | .backoff a b => ((env.set "minDelay" (.int a)).set "maxDelay" (.int b)).set "c.reconnectBackoff"
          (.tag "backoff" (Val.ofList [.cons (.str "minDelay") (.int a), .cons (.str "maxDelay") (.int b)]))
      | .ping d => (env.set "d" (.int d)).set "c.pingInterval" (.int d)
      | .timeout d => (env.set "d" (.int d)).set "c.timeout" (.int d)) := by
  cases o with
  | noReconnect => mgsimps [applyOpt, optExt, Out.env?, prog_WithNoReconnect_lit1]
  | backoff a b => mgsimps [applyOpt, optExt, Out.env?, prog_WithReconnectBackoff_lit1, kvOf, get_min_of_max]
  | ping d => mgsimps [applyOpt, optExt, Out.env?, prog_WithPingInterval_lit1]
  | timeout d => mgsimps [applyOpt, optExt, Out.env?, prog_WithTimeout_lit1]

/-- Every option runs to completion on every configuration. -/
theorem applyOpt_total (o : Opt) (env : Env) : ∃ env', applyOpt o env = some env' := ⟨_, applyOpt_eq o env⟩

/-- `WithNoReconnect` sets the flag … -/
theorem applyOpt_noReconnect_sets (env : Env) :
    ∃ env', applyOpt .noReconnect env = some env' ∧ env'.get "c.noReconnect" = some (.bool true) :=
  ⟨_, applyOpt_eq .noReconnect env, by simp⟩

/-- … and no option ever clears it. -/
theorem applyOpt_keeps_noReconnect (o : Opt) (env env' : Env)
    (h : applyOpt o env = some env') (hset : env.get "c.noReconnect" = some (.bool true)) :
    env'.get "c.noReconnect" = some (.bool true) := by
  rw [applyOpt_eq] at h
  cases h
  cases o with
  | noReconnect => simp
  | backoff a b =>
    show (((env.set "minDelay" _).set "maxDelay" _).set "c.reconnectBackoff" _).get "c.noReconnect" = _
    rw [get_noReconnect_set _ _ _ (by decide), get_noReconnect_set _ _ _ (by decide), get_noReconnect_set _ _ _ (by decide)]
    exact hset
  | ping d =>
    show ((env.set "d" _).set "c.pingInterval" _).get "c.noReconnect" = _
    rw [get_noReconnect_set _ _ _ (by decide), get_noReconnect_set _ _ _ (by decide)]
    exact hset
  | timeout d =>
    show ((env.set "d" _).set "c.timeout" _).get "c.noReconnect" = _
    rw [get_noReconnect_set _ _ _ (by decide), get_noReconnect_set _ _ _ (by decide)]
    exact hset

theorem applyOpts_keeps (os : List Opt) (env env' : Env)
    (h : applyOpts os env = some env') (hset : env.get "c.noReconnect" = some (.bool true)) :
    env'.get "c.noReconnect" = some (.bool true) := by
  induction os generalizing env with
  | nil => simp [applyOpts] at h; subst h; exact hset
  | cons o os ih =>
    simp only [applyOpts] at h
    cases ho : applyOpt o env with
    | none => simp [ho] at h
    | some e1 =>
      simp [ho] at h
      exact ih e1 h (applyOpt_keeps_noReconnect o env e1 ho hset)

/-- C05 ("a no-reconnect client never redials"), configuration half, over the regenerated option closures: if
    `WithNoReconnect()` is among the options — before or after `WithReconnectBackoff`, `WithPingInterval`,
    `WithTimeout`, any number of them — the configuration ends with `noReconnect = true`. (`websocketClient` then passes a
    nil `connFactory`, and `C05_noredial` says a connection without a factory never dials.) -/
theorem noReconnect_sticks (os : List Opt) (env : Env) (h : Opt.noReconnect ∈ os) :
    ∃ env', applyOpts os env = some env' ∧ env'.get "c.noReconnect" = some (.bool true) := by
  induction os generalizing env with
  | nil => cases h
  | cons o os ih =>
    obtain ⟨e1, h1⟩ := applyOpt_total o env
    simp only [applyOpts, h1, Option.bind_some]
    by_cases ho : o = .noReconnect
    · subst ho
      obtain ⟨e2, h2, hg⟩ := applyOpt_noReconnect_sets env
      rw [h1] at h2; cases h2
      -- the rest runs to completion and keeps the flag
      have tot : ∀ (l : List Opt) (e : Env), ∃ e', applyOpts l e = some e' := by
        intro l
        induction l with
        | nil => intro e; exact ⟨e, rfl⟩
        | cons a l ihl =>
          intro e
          obtain ⟨ea, ha⟩ := applyOpt_total a e
          obtain ⟨el, hl⟩ := ihl ea
          exact ⟨el, by simp [applyOpts, ha, hl]⟩
      obtain ⟨e3, h3⟩ := tot os e1
      exact ⟨e3, h3, applyOpts_keeps os e1 e3 h3 hg⟩
    · have hin : Opt.noReconnect ∈ os := by
        cases h with
        | head => exact absurd rfl ho
        | tail _ ht => exact ht
      exact ih e1 hin

/-- Non-vacuity: the order the fourth round's seeded change needed. -/
example : ∃ env', applyOpts [.noReconnect, .backoff 100 5000, .timeout 30] [] = some env' ∧
    env'.get "c.noReconnect" = some (.bool true) := noReconnect_sticks _ _ (by simp)

end Jrpc.Trans

import Jrpc.Forwarder
/-
  Helper lemmas for `Jrpc.Forwarder`: how swap-with-last removal reads, and the alignment invariant.
-/
namespace Jrpc.Forwarder

theorem removeSwap_length {α} (l : List α) (k : Nat) (hk : k < l.length) :
    (removeSwap l k).length = l.length - 1 := by
  unfold removeSwap
  cases h : l.getLast? with
  | none => simp [List.getLast?_eq_none_iff] at h; subst h; simp at hk
  | some x => simp

theorem removeSwap_get {α} (l : List α) (k j : Nat) (hk : k < l.length) :
    (removeSwap l k)[j]? =
      if j + 1 < l.length then (if j = k then l[l.length - 1]? else l[j]?) else none := by
  unfold removeSwap
  cases h : l.getLast? with
  | none => simp [List.getLast?_eq_none_iff] at h; subst h; simp at hk
  | some x =>
    have hx : l[l.length - 1]? = some x := by
      rw [List.getLast?_eq_getElem?] at h; exact h
    simp only [List.getElem?_dropLast, List.length_set]
    by_cases hj : j + 1 < l.length
    · have hj' : j < l.length - 1 := by omega
      simp only [hj, hj', if_true]
      by_cases hjk : j = k
      · subst hjk
        simp [List.getElem?_set, hx, hk]
      · have : ¬ k = j := fun h => hjk h.symm
        simp [List.getElem?_set, hjk, this]
    · have hj' : ¬ j < l.length - 1 := by omega
      simp [hj, hj']

/-- The two slices stay aligned, and every position carries the id announced for its channel. -/
structure FInv (s : St) : Prop where
  len : s.cases.length = s.ids.length
  aligned : ∀ (k hp : Nat), s.cases[k]? = some hp → s.ids[k]? = s.owner.lookup hp

theorem finv_init : FInv {} := by
  constructor <;> simp

theorem lookup_cons_filter_ne (o : List (Nat × Nat)) (hp id hq : Nat) (h : hq ≠ hp) :
    ((hp, id) :: o.filter (·.1 != hp)).lookup hq = o.lookup hq := by
  have hne : (hq == hp) = false := by simpa using h
  simp only [List.lookup, hne]
  induction o with
  | nil => simp
  | cons p rest ih =>
    by_cases hp1 : p.1 = hp
    · have : (p.1 != hp) = false := by simp [hp1]
      have hq1 : (hq == p.1) = false := by simp [hp1, h]
      simp [List.filter, this, List.lookup, hq1, ih]
    · have : (p.1 != hp) = true := by simp [hp1]
      simp only [List.filter, this]
      cases hqp : hq == p.1 <;> simp [List.lookup, hqp, ih]

theorem pos_spec (s : St) (hp k : Nat) (h : s.pos? hp = some k) : s.cases[k]? = some hp ∧ k < s.cases.length := by
  unfold St.pos? at h
  simp only at h
  split at h
  · rename_i hlt
    injection h with h; subst h
    exact ⟨by simp [List.getElem?_eq_getElem hlt, List.getElem_idxOf hlt], hlt⟩
  · simp at h

theorem step_finv (s s' : St) (e : Ev) (h : FInv s) (hs : step? s e = some s') : FInv s' := by
  cases e with
  | reg hp id =>
    simp only [step?] at hs
    split at hs
    · simp at hs
    · rename_i hnc
      injection hs with hs; subst hs
      have hnot : hp ∉ s.cases := by simpa using hnc
      constructor
      · simp [h.len]
      · intro k hq hk
        simp only at hk ⊢
        by_cases hlt : k < s.cases.length
        · have hk' : s.cases[k]? = some hq := by simpa [List.getElem?_append_left hlt] using hk
          have hne : hq ≠ hp := by
            intro heq; subst heq
            exact hnot (List.mem_of_getElem? hk')
          rw [lookup_cons_filter_ne _ _ _ _ hne]
          have hlt' : k < s.ids.length := by rw [← h.len]; exact hlt
          rw [List.getElem?_append_left hlt']
          exact h.aligned k hq hk'
        · have hge : s.cases.length ≤ k := Nat.le_of_not_lt hlt
          rw [List.getElem?_append_right hge] at hk
          have hk0 : k - s.cases.length = 0 := by
            cases hkk : k - s.cases.length with
            | zero => rfl
            | succ n => simp [hkk] at hk
          have hkeq : k = s.cases.length := by omega
          simp [hk0] at hk; subst hk
          have hge' : s.ids.length ≤ k := by rw [← h.len]; exact hge
          rw [List.getElem?_append_right hge']
          have : k - s.ids.length = 0 := by rw [← h.len]; exact hk0
          simp [this, List.lookup]
  | val hp id =>
    simp only [step?] at hs
    split at hs
    · split at hs
      · injection hs with hs; subst hs; exact h
      · simp at hs
    · simp at hs
  | close hp id =>
    simp only [step?] at hs
    split at hs
    · rename_i k hpos
      split at hs
      · injection hs with hs; subst hs
        obtain ⟨_, hklt⟩ := pos_spec s hp k hpos
        have hklt' : k < s.ids.length := by rw [← h.len]; exact hklt
        constructor
        · simp [removeSwap_length _ _ hklt, removeSwap_length _ _ hklt', h.len]
        · intro j hq hj
          simp only at hj ⊢
          rw [removeSwap_get _ _ _ hklt] at hj
          rw [removeSwap_get _ _ _ hklt']
          rw [← h.len]
          by_cases hjl : j + 1 < s.cases.length
          · simp only [hjl, if_true] at hj ⊢
            by_cases hjk : j = k
            · simp only [hjk, if_true] at hj ⊢
              exact h.aligned _ hq hj
            · simp only [hjk, if_false] at hj ⊢
              exact h.aligned _ hq hj
          · simp [hjl] at hj
      · simp at hs
    · simp at hs

theorem run_finv (es : List Ev) (s s' : St) (h : FInv s) (hr : run? s es = some s') : FInv s' := by
  induction es generalizing s with
  | nil => simp [run?] at hr; subst hr; exact h
  | cons e es ih =>
    simp only [run?] at hr
    cases hst : step? s e with
    | none => simp [hst] at hr
    | some s1 =>
      simp [hst] at hr
      exact ih s1 (step_finv s s1 e h hst) hr

end Jrpc.Forwarder

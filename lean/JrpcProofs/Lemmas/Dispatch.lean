import Jrpc.Dispatch
/-
  Helper lemmas about name formatting and the method table.
-/
namespace Jrpc

theorem split_unique {α} [DecidableEq α] (x : α) :
    ∀ (a a' b b' : List α), x ∉ a → x ∉ a' → a ++ x :: b = a' ++ x :: b' → a = a' ∧ b = b'
  | [], [], b, b', _, _, h => by simpa using h
  | [], y :: a', b, b', _, h', h => by
      simp at h; simp at h'; exact absurd h.1 (by intro e; exact h'.1 e)
  | y :: a, [], b, b', h', _, h => by
      simp at h; simp at h'; exact absurd h.1.symm (by intro e; exact h'.1 e)
  | y :: a, z :: a', b, b', ha, ha', h => by
      simp at h ha ha'
      obtain ⟨hyz, hrest⟩ := h
      obtain ⟨h1, h2⟩ := split_unique x a a' b b' ha.2 ha'.2 hrest
      exact ⟨by rw [hyz, h1], h2⟩

/-- `a ++ x :: b = a' ++ x :: b'` with `x` in neither suffix determines both parts (split at the last `x`). -/
theorem split_unique_right {α} [DecidableEq α] (x : α) (a a' b b' : List α)
    (hb : x ∉ b) (hb' : x ∉ b') (h : a ++ x :: b = a' ++ x :: b') : a = a' ∧ b = b' := by
  have hr := congrArg List.reverse h
  simp only [List.reverse_append, List.reverse_cons, List.append_assoc, List.singleton_append] at hr
  have := split_unique x b.reverse b'.reverse a.reverse a'.reverse (by simpa using hb) (by simpa using hb') hr
  exact ⟨List.reverse_inj.mp this.2, List.reverse_inj.mp this.1⟩

theorem toLower_eq_dot (c : Char) : c.toLower = '.' ↔ c = '.' := by
  constructor
  · intro h
    unfold Char.toLower at h
    split at h
    · rename_i hc
      have h' := congrArg Char.val h
      simp at h'
      have hc1 : 65 ≤ c.val.toNat := by
        have := hc.1; rw [ge_iff_le, UInt32.le_iff_toNat_le] at this; simpa using this
      have hc2 : c.val.toNat ≤ 90 := by
        have := hc.2; rw [UInt32.le_iff_toNat_le] at this; simpa using this
      have h'' := congrArg UInt32.toNat h'
      simp [UInt32.toNat_add] at h''
      have e : c.toNat = c.val.toNat := rfl
      omega
    · exact h
  · intro h; subst h; decide

theorem dot_mem_lowerFirst (m : Name) : '.' ∈ lowerFirst m ↔ '.' ∈ m := by
  cases m with
  | nil => simp [lowerFirst]
  | cons c cs =>
    simp only [lowerFirst, List.mem_cons]
    constructor
    · rintro (h | h)
      · left; exact ((toLower_eq_dot c).mp h.symm).symm
      · right; exact h
    · rintro (h | h)
      · left; exact ((toLower_eq_dot c).mpr h.symm).symm
      · right; exact h

/-- The formatted method part of a name. -/
def Fmt.meth (f : Fmt) (m : Name) : Name := if f.lower then lowerFirst m else m

theorem Fmt.apply_eq (f : Fmt) (ns m : Name) :
    f.apply ns m = if f.incNs then ns ++ f.sep ++ f.meth m else f.meth m := by
  simp [Fmt.apply, Fmt.meth]

theorem dot_mem_meth (f : Fmt) (m : Name) : '.' ∈ f.meth m ↔ '.' ∈ m := by
  unfold Fmt.meth; split
  · exact dot_mem_lowerFirst m
  · rfl

/-- Namespace-including, dot-separated formatters are injective in the namespace (and in the formatted
    method part) on dot-free method names. -/
theorem fmt_injective (f : Fmt) (hns : f.incNs = true) (hsep : f.sep = ['.'])
    (ns ns' m m' : Name) (hm : '.' ∉ m) (hm' : '.' ∉ m')
    (h : f.apply ns m = f.apply ns' m') : ns = ns' ∧ f.meth m = f.meth m' := by
  rw [Fmt.apply_eq, Fmt.apply_eq, hns, hsep] at h
  simp only [if_true, List.append_assoc, List.singleton_append] at h
  exact split_unique_right '.' ns ns' _ _ (by rwa [dot_mem_meth]) (by rwa [dot_mem_meth]) h

/-- Table lookups. -/
theorem lookup_insert_self (t : Table) (k : Name) (m : Method) : (t.insert k m).lookup k = some m := by
  simp [Table.insert]

theorem lookup_insert_ne (t : Table) (k k' : Name) (m : Method) (h : k' ≠ k) :
    (t.insert k m).lookup k' = t.lookup k' := by
  have hb : (k' == k) = false := by simpa using h
  simp [Table.insert, List.lookup, hb]

theorem register_append (f : Fmt) (ns : Name) (ms ms' : List (Name × Method)) (t : Table) :
    register f ns (ms ++ ms') t = register f ns ms' (register f ns ms t) := by
  simp [register, List.foldl_append]

/-- Every binding found in a table built by `register` on top of `t` comes from `t` or from one of
    the registered methods under its formatted name. -/
theorem lookup_register (f : Fmt) (ns : Name) (ms : List (Name × Method)) (t : Table)
    (k : Name) (meth : Method) (h : (register f ns ms t).lookup k = some meth) :
    (∃ n, (n, meth) ∈ ms ∧ f.apply ns n = k) ∨ t.lookup k = some meth := by
  induction ms generalizing t with
  | nil => right; simpa [register] using h
  | cons p ms ih =>
    have h' : (register f ns ms (t.insert (f.apply ns p.1) p.2)).lookup k = some meth := by
      simpa [register] using h
    rcases ih _ h' with ⟨n, hn, hk⟩ | hl
    · left; exact ⟨n, List.mem_cons_of_mem _ hn, hk⟩
    · by_cases hk : k = f.apply ns p.1
      · subst hk
        rw [lookup_insert_self] at hl
        left; refine ⟨p.1, ?_, rfl⟩
        have : p.2 = meth := by simpa using hl
        rw [← this]; exact List.mem_cons_self
      · right; rwa [lookup_insert_ne _ _ _ _ hk] at hl

theorem lookup_register_isSome (f : Fmt) (ns : Name) (ms : List (Name × Method)) (t : Table)
    (n : Name) (m : Method) (h : (n, m) ∈ ms) :
    ((register f ns ms t).lookup (f.apply ns n)).isSome := by
  induction ms generalizing t with
  | nil => cases h
  | cons p ms ih =>
    simp only [register, List.foldl_cons]
    rcases List.mem_cons.mp h with heq | hmem
    · -- registered here; later registrations may overwrite but never remove
      have key : ∀ (ms : List (Name × Method)) (t : Table) (k : Name), (t.lookup k).isSome →
          ((ms.foldl (fun t p => t.insert (f.apply ns p.1) p.2) t).lookup k).isSome := by
        intro ms
        induction ms with
        | nil => intro t k h; simpa using h
        | cons q qs ihq =>
          intro t k h
          simp only [List.foldl_cons]
          apply ihq
          by_cases hk : k = f.apply ns q.1
          · subst hk; rw [lookup_insert_self]; rfl
          · rw [lookup_insert_ne _ _ _ _ hk]; exact h
      apply key
      rw [← heq]; simp [lookup_insert_self]
    · exact ih _ hmem

end Jrpc

import Jrpc.Corr
/-
  Invariants of the correlation model and their preservation.
-/
namespace Jrpc.Corr
set_option linter.unusedSimpArgs false

@[simp] theorem setAtt_same (s : St) (a : Nat) (f : Att → Att) : (s.setAtt a f).att a = f (s.att a) := by
  simp [St.setAtt]
theorem setAtt_ne (s : St) (a b : Nat) (f : Att → Att) (h : b ≠ a) : (s.setAtt a f).att b = s.att b := by
  simp [St.setAtt, h]
@[simp] theorem setAtt_inflight (s : St) (a : Nat) (f : Att → Att) : (s.setAtt a f).inflight = s.inflight := rfl
@[simp] theorem setAtt_live (s : St) (a : Nat) (f : Att → Att) : (s.setAtt a f).live = s.live := rfl
@[simp] theorem setAtt_epoch (s : St) (a : Nat) (f : Att → Att) : (s.setAtt a f).epoch = s.epoch := rfl
@[simp] theorem setAtt_err (s : St) (a : Nat) (f : Att → Att) : (s.setAtt a f).incomingErr = s.incomingErr := rfl
@[simp] theorem setAtt_redial (s : St) (a : Nat) (f : Att → Att) : (s.setAtt a f).redialing = s.redialing := rfl
@[simp] theorem setAtt_pc (s : St) (a : Nat) (f : Att → Att) : (s.setAtt a f).mainPc = s.mainPc := rfl
@[simp] theorem setAtt_exiting (s : St) (a : Nat) (f : Att → Att) : (s.setAtt a f).exitingClosed = s.exitingClosed := rfl
@[simp] theorem setAtt_fep (s : St) (a : Nat) (f : Att → Att) : (s.setAtt a f).fePending = s.fePending := rfl
@[simp] theorem setAtt_fes (s : St) (a : Nat) (f : Att → Att) : (s.setAtt a f).feSending = s.feSending := rfl
@[simp] theorem setAtt_fed (s : St) (a : Nat) (f : Att → Att) : (s.setAtt a f).feDelivered = s.feDelivered := rfl
@[simp] theorem setAtt_execs (s : St) (a : Nat) (f : Att → Att) : (s.setAtt a f).execs = s.execs := rfl
@[simp] theorem setAtt_decided (s : St) (a : Nat) (f : Att → Att) : (s.setAtt a f).decided = s.decided := rfl
@[simp] theorem put_decided (s : St) (id : NId) (a : Nat) : (s.putInflight id a).decided = s.decided := rfl
@[simp] theorem erase_decided (s : St) (id : NId) : (s.eraseInflight id).decided = s.decided := rfl

theorem lookup_filter_ne (l : List (NId × Nat)) (u v : NId) (h : v ≠ u) :
    (l.filter (fun p => p.1 != u)).lookup v = l.lookup v := by
  induction l with
  | nil => rfl
  | cons p t ih =>
    by_cases hp : p.1 = u
    · have : (p.1 != u) = false := by simp [hp]
      simp only [List.filter_cons, this, Bool.false_eq_true, if_false, ih]
      have hv : (v == p.1) = false := by simp [hp, h]
      simp [List.lookup, hv]
    · have : (p.1 != u) = true := by simpa using hp
      simp only [List.filter_cons, this, if_true, List.lookup]
      cases hvp : v == p.1 <;> simp [ih]

theorem lookup_filter_self (l : List (NId × Nat)) (u : NId) :
    (l.filter (fun p => p.1 != u)).lookup u = none := by
  induction l with
  | nil => rfl
  | cons p t ih =>
    by_cases hp : p.1 = u
    · have : (p.1 != u) = false := by simp [hp]
      simp only [List.filter_cons, this, Bool.false_eq_true, if_false, ih]
    · have : (p.1 != u) = true := by simpa using hp
      have hv : (u == p.1) = false := by simp; exact fun e => hp e.symm
      simp only [List.filter_cons, this, if_true, List.lookup, hv, ih]

@[simp] theorem get_put_self (s : St) (id : NId) (a : Nat) : (s.putInflight id a).getInflight id = some a := by
  simp [St.getInflight, St.putInflight, List.lookup]
theorem get_put_ne (s : St) (id i : NId) (a : Nat) (h : i ≠ id) : (s.putInflight id a).getInflight i = s.getInflight i := by
  have hb : (i == id) = false := by simpa using h
  simp [St.getInflight, St.putInflight, List.lookup, hb, lookup_filter_ne _ _ _ h]
@[simp] theorem get_erase_self (s : St) (id : NId) : (s.eraseInflight id).getInflight id = none := by
  simp [St.getInflight, St.eraseInflight, lookup_filter_self]
theorem get_erase_ne (s : St) (id i : NId) (h : i ≠ id) : (s.eraseInflight id).getInflight i = s.getInflight i := by
  simp [St.getInflight, St.eraseInflight, lookup_filter_ne _ _ _ h]

@[simp] theorem getInflight_setAtt (s : St) (a : Nat) (f : Att → Att) (i : NId) :
    (s.setAtt a f).getInflight i = s.getInflight i := rfl
@[simp] theorem put_att (s : St) (id : NId) (a : Nat) : (s.putInflight id a).att = s.att := rfl
@[simp] theorem erase_att (s : St) (id : NId) : (s.eraseInflight id).att = s.att := rfl
@[simp] theorem put_pc (s : St) (id : NId) (a : Nat) : (s.putInflight id a).mainPc = s.mainPc := rfl
@[simp] theorem erase_pc (s : St) (id : NId) : (s.eraseInflight id).mainPc = s.mainPc := rfl
@[simp] theorem put_misc (s : St) (id : NId) (a : Nat) :
    (s.putInflight id a).live = s.live ∧ (s.putInflight id a).epoch = s.epoch ∧
    (s.putInflight id a).incomingErr = s.incomingErr ∧ (s.putInflight id a).redialing = s.redialing ∧
    (s.putInflight id a).exitingClosed = s.exitingClosed ∧ (s.putInflight id a).fePending = s.fePending ∧
    (s.putInflight id a).feSending = s.feSending ∧ (s.putInflight id a).feDelivered = s.feDelivered ∧
    (s.putInflight id a).execs = s.execs := ⟨rfl, rfl, rfl, rfl, rfl, rfl, rfl, rfl, rfl⟩
@[simp] theorem erase_misc (s : St) (id : NId) :
    (s.eraseInflight id).live = s.live ∧ (s.eraseInflight id).epoch = s.epoch ∧
    (s.eraseInflight id).incomingErr = s.incomingErr ∧ (s.eraseInflight id).redialing = s.redialing ∧
    (s.eraseInflight id).exitingClosed = s.exitingClosed ∧ (s.eraseInflight id).fePending = s.fePending ∧
    (s.eraseInflight id).feSending = s.feSending ∧ (s.eraseInflight id).feDelivered = s.feDelivered ∧
    (s.eraseInflight id).execs = s.execs := ⟨rfl, rfl, rfl, rfl, rfl, rfl, rfl, rfl, rfl⟩
theorem put_nonempty (s : St) (id : NId) (a : Nat) : (s.putInflight id a).inflight ≠ [] := by
  simp [St.putInflight]
theorem getInflight_nil (s : St) (h : s.inflight = []) (i : NId) : s.getInflight i = none := by
  simp [St.getInflight, h]
theorem erase_nil (s : St) (id : NId) (h : s.inflight = []) : (s.eraseInflight id).inflight = [] := by
  simp [St.eraseInflight, h]

theorem lk_put_self (s : St) (id : NId) (a : Nat) : (s.putInflight id a).inflight.lookup id = some a := get_put_self s id a
theorem lk_put_ne (s : St) (id i : NId) (a : Nat) (h : i ≠ id) :
    (s.putInflight id a).inflight.lookup i = s.inflight.lookup i := get_put_ne s id i a h
theorem lk_erase_self (s : St) (id : NId) : (s.eraseInflight id).inflight.lookup id = none := get_erase_self s id
theorem lk_erase_ne (s : St) (id i : NId) (h : i ≠ id) :
    (s.eraseInflight id).inflight.lookup i = s.inflight.lookup i := get_erase_ne s id i h
theorem lk_nil (l : List (NId × Nat)) (h : l = []) (i : NId) : l.lookup i = none := by simp [h]

/-- an entry found by lookup is a member -/
theorem mem_of_lookup (l : List (NId × Nat)) (id : NId) (a : Nat) (h : l.lookup id = some a) : (id, a) ∈ l := by
  induction l with
  | nil => simp [List.lookup] at h
  | cons p t ih =>
    simp only [List.lookup] at h
    cases hp : id == p.1 with
    | true =>
      simp [hp] at h
      have : id = p.1 := by simpa using hp
      simp [this, ← h]
    | false => simp [hp] at h; exact List.mem_cons_of_mem _ (ih h)

set_option maxHeartbeats 4000000

/-- Safety invariants that do not need the bookkeeping of live ids. -/
structure Inv1 (s : St) : Prop where
  infl : ∀ id a, s.getInflight id = some a →
    (s.att a).id = id ∧ (s.att a).registered = true ∧ (s.att a).taken = true ∧ id ≠ .nil
  own : ∀ a m, (m ∈ (s.att a).mail ∨ (s.att a).recvd = some m) →
    m = .connErr ∨ m = .ack ∨ m = .genuine (s.att a).id
  fe : ∀ id a, (s.fePending = some (id, a) ∨ s.feSending = some (id, a) ∨ s.feDelivered = some (id, a)) →
    (s.att a).id = id ∧ (s.att a).registered = true ∧ (s.att a).taken = true ∧ 0 < s.execs a
  cap : ∀ a, (s.att a).mail.length ≤ 1
  window : (s.redialing = true ∨ s.mainPc = .sweeping false ∨ s.mainPc = .swept false) → s.incomingErr = true
  swept : ∀ x, s.mainPc = .swept x → s.inflight = []
  exited : s.exitingClosed = true → s.mainPc = .exited
  exitedPc : s.mainPc = .exited → s.inflight = []
  execs : ∀ a, s.execs a ≤ (s.att a).wrote ∧ (s.att a).wrote ≤ 1
  regTaken : ∀ a, (s.att a).registered = true → (s.att a).taken = true ∧ (s.att a).id ≠ .nil
  fresh : ∀ a, (s.att a).enq = false → (s.att a).mail = [] ∧ (s.att a).recvd = none ∧ (s.att a).taken = false ∧
            (s.att a).registered = false ∧ (s.att a).wrote = 0
  wroteTaken : ∀ a, 0 < (s.att a).wrote → (s.att a).taken = true
  redialPc : s.redialing = true → s.mainPc ≠ .sweeping false ∧ s.mainPc ≠ .swept false
  handlingTaken : ∀ a, s.mainPc = .handling a → (s.att a).taken = true ∧ (s.att a).enq = true
  decidedOk : ∀ a, s.mainPc = .handling a → s.decided = some false → s.redialing = false

theorem inv1_init : Inv1 {} := by
  constructor <;> simp [St.getInflight]

private theorem step_enq (s s' : St) (a : Nat) (id : NId) (h : Inv1 s) (hs : step? s (.enq a id) = some s') : Inv1 s' := by
  obtain ⟨h1, h2, h3, h4, h5, h6, h7, h8, h9, h10, h11, h12, h13, h14, h15⟩ := h
  simp only [step?] at hs
  repeat' split at hs
  all_goals first | (cases hs; done) | skip
  all_goals cases hs
  all_goals constructor
  all_goals (try simp only [Bool.or_eq_true, Bool.and_eq_true, Bool.not_eq_true', bne_iff_ne, beq_iff_eq, ne_eq,
    not_or, not_and, Bool.not_eq_true, decide_eq_true_eq, List.isEmpty_iff, Option.isSome_iff_ne_none] at *)
  all_goals (try simp only [put_att, erase_att, put_pc, erase_pc, put_misc, erase_misc, getInflight_setAtt,
    setAtt_inflight, setAtt_live, setAtt_epoch, setAtt_err, setAtt_redial, setAtt_pc, setAtt_exiting, setAtt_fep,
    setAtt_fes, setAtt_fed, setAtt_execs, setAtt_decided, put_decided, erase_decided] at *)
  all_goals (try simp only [St.getInflight] at *)
  all_goals (try grind [St.setAtt, lk_put_self, lk_put_ne, lk_erase_self, lk_erase_ne, put_nonempty,
    lk_nil, erase_nil])

private theorem step_exitErr (s s' : St) (a : Nat) (h : Inv1 s) (hs : step? s (.exitErr a) = some s') : Inv1 s' := by
  obtain ⟨h1, h2, h3, h4, h5, h6, h7, h8, h9, h10, h11, h12, h13, h14, h15⟩ := h
  simp only [step?] at hs
  repeat' split at hs
  all_goals first | (cases hs; done) | skip
  all_goals cases hs
  all_goals constructor
  all_goals (try simp only [Bool.or_eq_true, Bool.and_eq_true, Bool.not_eq_true', bne_iff_ne, beq_iff_eq, ne_eq,
    not_or, not_and, Bool.not_eq_true, decide_eq_true_eq, List.isEmpty_iff, Option.isSome_iff_ne_none] at *)
  all_goals (try simp only [put_att, erase_att, put_pc, erase_pc, put_misc, erase_misc, getInflight_setAtt,
    setAtt_inflight, setAtt_live, setAtt_epoch, setAtt_err, setAtt_redial, setAtt_pc, setAtt_exiting, setAtt_fep,
    setAtt_fes, setAtt_fed, setAtt_execs, setAtt_decided, put_decided, erase_decided] at *)
  all_goals (try simp only [St.getInflight] at *)
  all_goals (try grind [St.setAtt, lk_put_self, lk_put_ne, lk_erase_self, lk_erase_ne, put_nonempty,
    lk_nil, erase_nil])

private theorem step_recv (s s' : St) (a : Nat) (e : Bool) (h : Inv1 s) (hs : step? s (.recv a e) = some s') : Inv1 s' := by
  obtain ⟨h1, h2, h3, h4, h5, h6, h7, h8, h9, h10, h11, h12, h13, h14, h15⟩ := h
  simp only [step?] at hs
  repeat' split at hs
  all_goals first | (cases hs; done) | skip
  all_goals cases hs
  all_goals constructor
  all_goals (try simp only [Bool.or_eq_true, Bool.and_eq_true, Bool.not_eq_true', bne_iff_ne, beq_iff_eq, ne_eq,
    not_or, not_and, Bool.not_eq_true, decide_eq_true_eq, List.isEmpty_iff, Option.isSome_iff_ne_none] at *)
  all_goals (try simp only [put_att, erase_att, put_pc, erase_pc, put_misc, erase_misc, getInflight_setAtt,
    setAtt_inflight, setAtt_live, setAtt_epoch, setAtt_err, setAtt_redial, setAtt_pc, setAtt_exiting, setAtt_fep,
    setAtt_fes, setAtt_fed, setAtt_execs, setAtt_decided, put_decided, erase_decided] at *)
  all_goals (try simp only [St.getInflight] at *)
  all_goals (try grind [St.setAtt, lk_put_self, lk_put_ne, lk_erase_self, lk_erase_ne, put_nonempty,
    lk_nil, erase_nil])

private theorem step_take (s s' : St) (a : Nat) (h : Inv1 s) (hs : step? s (.take a) = some s') : Inv1 s' := by
  obtain ⟨h1, h2, h3, h4, h5, h6, h7, h8, h9, h10, h11, h12, h13, h14, h15⟩ := h
  simp only [step?] at hs
  repeat' split at hs
  all_goals first | (cases hs; done) | skip
  all_goals cases hs
  all_goals constructor
  all_goals (try simp only [Bool.or_eq_true, Bool.and_eq_true, Bool.not_eq_true', bne_iff_ne, beq_iff_eq, ne_eq,
    not_or, not_and, Bool.not_eq_true, decide_eq_true_eq, List.isEmpty_iff, Option.isSome_iff_ne_none] at *)
  all_goals (try simp only [put_att, erase_att, put_pc, erase_pc, put_misc, erase_misc, getInflight_setAtt,
    setAtt_inflight, setAtt_live, setAtt_epoch, setAtt_err, setAtt_redial, setAtt_pc, setAtt_exiting, setAtt_fep,
    setAtt_fes, setAtt_fed, setAtt_execs, setAtt_decided, put_decided, erase_decided] at *)
  all_goals (try simp only [St.getInflight] at *)
  all_goals (try grind [St.setAtt, lk_put_self, lk_put_ne, lk_erase_self, lk_erase_ne, put_nonempty,
    lk_nil, erase_nil])

private theorem step_errCheck (s s' : St) (a : Nat) (b : Bool) (h : Inv1 s) (hs : step? s (.errCheck a b) = some s') : Inv1 s' := by
  obtain ⟨h1, h2, h3, h4, h5, h6, h7, h8, h9, h10, h11, h12, h13, h14, h15⟩ := h
  simp only [step?] at hs
  repeat' split at hs
  all_goals first | (cases hs; done) | skip
  all_goals cases hs
  all_goals constructor
  all_goals (try simp only [Bool.or_eq_true, Bool.and_eq_true, Bool.not_eq_true', bne_iff_ne, beq_iff_eq, ne_eq,
    not_or, not_and, Bool.not_eq_true, decide_eq_true_eq, List.isEmpty_iff, Option.isSome_iff_ne_none] at *)
  all_goals (try simp only [put_att, erase_att, put_pc, erase_pc, put_misc, erase_misc, getInflight_setAtt,
    setAtt_inflight, setAtt_live, setAtt_epoch, setAtt_err, setAtt_redial, setAtt_pc, setAtt_exiting, setAtt_fep,
    setAtt_fes, setAtt_fed, setAtt_execs, setAtt_decided, put_decided, erase_decided] at *)
  all_goals (try simp only [St.getInflight] at *)
  all_goals (try grind [St.setAtt, lk_put_self, lk_put_ne, lk_erase_self, lk_erase_ne, put_nonempty,
    lk_nil, erase_nil])

private theorem step_failfast (s s' : St) (a : Nat) (h : Inv1 s) (hs : step? s (.failfast a) = some s') : Inv1 s' := by
  obtain ⟨h1, h2, h3, h4, h5, h6, h7, h8, h9, h10, h11, h12, h13, h14, h15⟩ := h
  simp only [step?] at hs
  repeat' split at hs
  all_goals first | (cases hs; done) | skip
  all_goals cases hs
  all_goals constructor
  all_goals (try simp only [Bool.or_eq_true, Bool.and_eq_true, Bool.not_eq_true', bne_iff_ne, beq_iff_eq, ne_eq,
    not_or, not_and, Bool.not_eq_true, decide_eq_true_eq, List.isEmpty_iff, Option.isSome_iff_ne_none] at *)
  all_goals (try simp only [put_att, erase_att, put_pc, erase_pc, put_misc, erase_misc, getInflight_setAtt,
    setAtt_inflight, setAtt_live, setAtt_epoch, setAtt_err, setAtt_redial, setAtt_pc, setAtt_exiting, setAtt_fep,
    setAtt_fes, setAtt_fed, setAtt_execs, setAtt_decided, put_decided, erase_decided] at *)
  all_goals (try simp only [St.getInflight] at *)
  all_goals (try grind [St.setAtt, lk_put_self, lk_put_ne, lk_erase_self, lk_erase_ne, put_nonempty,
    lk_nil, erase_nil])

private theorem step_register (s s' : St) (a : Nat) (h : Inv1 s) (hs : step? s (.register a) = some s') : Inv1 s' := by
  obtain ⟨h1, h2, h3, h4, h5, h6, h7, h8, h9, h10, h11, h12, h13, h14, h15⟩ := h
  simp only [step?] at hs
  repeat' split at hs
  all_goals first | (cases hs; done) | skip
  all_goals cases hs
  all_goals constructor
  all_goals (try simp only [Bool.or_eq_true, Bool.and_eq_true, Bool.not_eq_true', bne_iff_ne, beq_iff_eq, ne_eq,
    not_or, not_and, Bool.not_eq_true, decide_eq_true_eq, List.isEmpty_iff, Option.isSome_iff_ne_none] at *)
  all_goals (try simp only [put_att, erase_att, put_pc, erase_pc, put_misc, erase_misc, getInflight_setAtt,
    setAtt_inflight, setAtt_live, setAtt_epoch, setAtt_err, setAtt_redial, setAtt_pc, setAtt_exiting, setAtt_fep,
    setAtt_fes, setAtt_fed, setAtt_execs, setAtt_decided, put_decided, erase_decided] at *)
  all_goals (try simp only [St.getInflight] at *)
  all_goals (try grind [St.setAtt, lk_put_self, lk_put_ne, lk_erase_self, lk_erase_ne, put_nonempty,
    lk_nil, erase_nil])

private theorem step_wrote (s s' : St) (a : Nat) (h : Inv1 s) (hs : step? s (.wrote a) = some s') : Inv1 s' := by
  obtain ⟨h1, h2, h3, h4, h5, h6, h7, h8, h9, h10, h11, h12, h13, h14, h15⟩ := h
  simp only [step?] at hs
  repeat' split at hs
  all_goals first | (cases hs; done) | skip
  all_goals cases hs
  all_goals constructor
  all_goals (try simp only [Bool.or_eq_true, Bool.and_eq_true, Bool.not_eq_true', bne_iff_ne, beq_iff_eq, ne_eq,
    not_or, not_and, Bool.not_eq_true, decide_eq_true_eq, List.isEmpty_iff, Option.isSome_iff_ne_none] at *)
  all_goals (try simp only [put_att, erase_att, put_pc, erase_pc, put_misc, erase_misc, getInflight_setAtt,
    setAtt_inflight, setAtt_live, setAtt_epoch, setAtt_err, setAtt_redial, setAtt_pc, setAtt_exiting, setAtt_fep,
    setAtt_fes, setAtt_fed, setAtt_execs, setAtt_decided, put_decided, erase_decided] at *)
  all_goals (try simp only [St.getInflight] at *)
  all_goals (try grind [St.setAtt, lk_put_self, lk_put_ne, lk_erase_self, lk_erase_ne, put_nonempty,
    lk_nil, erase_nil])

private theorem step_notifReply (s s' : St) (a : Nat) (b : Bool) (h : Inv1 s) (hs : step? s (.notifReply a b) = some s') : Inv1 s' := by
  obtain ⟨h1, h2, h3, h4, h5, h6, h7, h8, h9, h10, h11, h12, h13, h14, h15⟩ := h
  simp only [step?] at hs
  repeat' split at hs
  all_goals first | (cases hs; done) | skip
  all_goals cases hs
  all_goals constructor
  all_goals (try simp only [Bool.or_eq_true, Bool.and_eq_true, Bool.not_eq_true', bne_iff_ne, beq_iff_eq, ne_eq,
    not_or, not_and, Bool.not_eq_true, decide_eq_true_eq, List.isEmpty_iff, Option.isSome_iff_ne_none] at *)
  all_goals (try simp only [put_att, erase_att, put_pc, erase_pc, put_misc, erase_misc, getInflight_setAtt,
    setAtt_inflight, setAtt_live, setAtt_epoch, setAtt_err, setAtt_redial, setAtt_pc, setAtt_exiting, setAtt_fep,
    setAtt_fes, setAtt_fed, setAtt_execs, setAtt_decided, put_decided, erase_decided] at *)
  all_goals (try simp only [St.getInflight] at *)
  all_goals (try grind [St.setAtt, lk_put_self, lk_put_ne, lk_erase_self, lk_erase_ne, put_nonempty,
    lk_nil, erase_nil])

private theorem step_lookup (s s' : St) (id : NId) (f : Bool) (h : Inv1 s) (hs : step? s (.lookup id f) = some s') : Inv1 s' := by
  obtain ⟨h1, h2, h3, h4, h5, h6, h7, h8, h9, h10, h11, h12, h13, h14, h15⟩ := h
  simp only [step?] at hs
  repeat' split at hs
  all_goals first | (cases hs; done) | skip
  all_goals cases hs
  all_goals constructor
  all_goals (try simp only [Bool.or_eq_true, Bool.and_eq_true, Bool.not_eq_true', bne_iff_ne, beq_iff_eq, ne_eq,
    not_or, not_and, Bool.not_eq_true, decide_eq_true_eq, List.isEmpty_iff, Option.isSome_iff_ne_none] at *)
  all_goals (try simp only [put_att, erase_att, put_pc, erase_pc, put_misc, erase_misc, getInflight_setAtt,
    setAtt_inflight, setAtt_live, setAtt_epoch, setAtt_err, setAtt_redial, setAtt_pc, setAtt_exiting, setAtt_fep,
    setAtt_fes, setAtt_fed, setAtt_execs, setAtt_decided, put_decided, erase_decided] at *)
  all_goals (try simp only [St.getInflight] at *)
  all_goals (try grind [St.setAtt, lk_put_self, lk_put_ne, lk_erase_self, lk_erase_ne, put_nonempty,
    lk_nil, erase_nil])

private theorem step_deliver (s s' : St) (id : NId) (a : Nat) (h : Inv1 s) (hs : step? s (.deliver id a) = some s') : Inv1 s' := by
  obtain ⟨h1, h2, h3, h4, h5, h6, h7, h8, h9, h10, h11, h12, h13, h14, h15⟩ := h
  simp only [step?] at hs
  repeat' split at hs
  all_goals first | (cases hs; done) | skip
  all_goals cases hs
  all_goals constructor
  all_goals (try simp only [Bool.or_eq_true, Bool.and_eq_true, Bool.not_eq_true', bne_iff_ne, beq_iff_eq, ne_eq,
    not_or, not_and, Bool.not_eq_true, decide_eq_true_eq, List.isEmpty_iff, Option.isSome_iff_ne_none] at *)
  all_goals (try simp only [put_att, erase_att, put_pc, erase_pc, put_misc, erase_misc, getInflight_setAtt,
    setAtt_inflight, setAtt_live, setAtt_epoch, setAtt_err, setAtt_redial, setAtt_pc, setAtt_exiting, setAtt_fep,
    setAtt_fes, setAtt_fed, setAtt_execs, setAtt_decided, put_decided, erase_decided] at *)
  all_goals (try simp only [St.getInflight] at *)
  all_goals (try grind [St.setAtt, lk_put_self, lk_put_ne, lk_erase_self, lk_erase_ne, put_nonempty,
    lk_nil, erase_nil])

private theorem step_deliverDone (s s' : St)  (h : Inv1 s) (hs : step? s (.deliverDone) = some s') : Inv1 s' := by
  obtain ⟨h1, h2, h3, h4, h5, h6, h7, h8, h9, h10, h11, h12, h13, h14, h15⟩ := h
  simp only [step?] at hs
  repeat' split at hs
  all_goals first | (cases hs; done) | skip
  all_goals cases hs
  all_goals constructor
  all_goals (try simp only [Bool.or_eq_true, Bool.and_eq_true, Bool.not_eq_true', bne_iff_ne, beq_iff_eq, ne_eq,
    not_or, not_and, Bool.not_eq_true, decide_eq_true_eq, List.isEmpty_iff, Option.isSome_iff_ne_none] at *)
  all_goals (try simp only [put_att, erase_att, put_pc, erase_pc, put_misc, erase_misc, getInflight_setAtt,
    setAtt_inflight, setAtt_live, setAtt_epoch, setAtt_err, setAtt_redial, setAtt_pc, setAtt_exiting, setAtt_fep,
    setAtt_fes, setAtt_fed, setAtt_execs, setAtt_decided, put_decided, erase_decided] at *)
  all_goals (try simp only [St.getInflight] at *)
  all_goals (try grind [St.setAtt, lk_put_self, lk_put_ne, lk_erase_self, lk_erase_ne, put_nonempty,
    lk_nil, erase_nil])

private theorem step_delete (s s' : St) (id : NId) (h : Inv1 s) (hs : step? s (.delete id) = some s') : Inv1 s' := by
  obtain ⟨h1, h2, h3, h4, h5, h6, h7, h8, h9, h10, h11, h12, h13, h14, h15⟩ := h
  simp only [step?] at hs
  repeat' split at hs
  all_goals first | (cases hs; done) | skip
  all_goals cases hs
  all_goals constructor
  all_goals (try simp only [Bool.or_eq_true, Bool.and_eq_true, Bool.not_eq_true', bne_iff_ne, beq_iff_eq, ne_eq,
    not_or, not_and, Bool.not_eq_true, decide_eq_true_eq, List.isEmpty_iff, Option.isSome_iff_ne_none] at *)
  all_goals (try simp only [put_att, erase_att, put_pc, erase_pc, put_misc, erase_misc, getInflight_setAtt,
    setAtt_inflight, setAtt_live, setAtt_epoch, setAtt_err, setAtt_redial, setAtt_pc, setAtt_exiting, setAtt_fep,
    setAtt_fes, setAtt_fed, setAtt_execs, setAtt_decided, put_decided, erase_decided] at *)
  all_goals (try simp only [St.getInflight] at *)
  all_goals (try grind [St.setAtt, lk_put_self, lk_put_ne, lk_erase_self, lk_erase_ne, put_nonempty,
    lk_nil, erase_nil])

private theorem step_cifSend (s s' : St) (id : NId) (a : Nat) (ok : Bool) (h : Inv1 s) (hs : step? s (.cifSend id a ok) = some s') : Inv1 s' := by
  obtain ⟨h1, h2, h3, h4, h5, h6, h7, h8, h9, h10, h11, h12, h13, h14, h15⟩ := h
  simp only [step?] at hs
  repeat' split at hs
  all_goals first | (cases hs; done) | skip
  all_goals cases hs
  all_goals constructor
  all_goals (try simp only [Bool.or_eq_true, Bool.and_eq_true, Bool.not_eq_true', bne_iff_ne, beq_iff_eq, ne_eq,
    not_or, not_and, Bool.not_eq_true, decide_eq_true_eq, List.isEmpty_iff, Option.isSome_iff_ne_none] at *)
  all_goals (try simp only [put_att, erase_att, put_pc, erase_pc, put_misc, erase_misc, getInflight_setAtt,
    setAtt_inflight, setAtt_live, setAtt_epoch, setAtt_err, setAtt_redial, setAtt_pc, setAtt_exiting, setAtt_fep,
    setAtt_fes, setAtt_fed, setAtt_execs, setAtt_decided, put_decided, erase_decided] at *)
  all_goals (try simp only [St.getInflight] at *)
  all_goals (try grind [St.setAtt, lk_put_self, lk_put_ne, lk_erase_self, lk_erase_ne, put_nonempty,
    lk_nil, erase_nil])

private theorem step_cifClear (s s' : St)  (h : Inv1 s) (hs : step? s (.cifClear) = some s') : Inv1 s' := by
  obtain ⟨h1, h2, h3, h4, h5, h6, h7, h8, h9, h10, h11, h12, h13, h14, h15⟩ := h
  simp only [step?] at hs
  repeat' split at hs
  all_goals first | (cases hs; done) | skip
  all_goals cases hs
  all_goals constructor
  all_goals (try simp only [Bool.or_eq_true, Bool.and_eq_true, Bool.not_eq_true', bne_iff_ne, beq_iff_eq, ne_eq,
    not_or, not_and, Bool.not_eq_true, decide_eq_true_eq, List.isEmpty_iff, Option.isSome_iff_ne_none] at *)
  all_goals (try simp only [put_att, erase_att, put_pc, erase_pc, put_misc, erase_misc, getInflight_setAtt,
    setAtt_inflight, setAtt_live, setAtt_epoch, setAtt_err, setAtt_redial, setAtt_pc, setAtt_exiting, setAtt_fep,
    setAtt_fes, setAtt_fed, setAtt_execs, setAtt_decided, put_decided, erase_decided] at *)
  all_goals (try simp only [St.getInflight] at *)
  all_goals (try grind [St.setAtt, lk_put_self, lk_put_ne, lk_erase_self, lk_erase_ne, put_nonempty,
    lk_nil, erase_nil])

private theorem step_readerErr (s s' : St)  (h : Inv1 s) (hs : step? s (.readerErr) = some s') : Inv1 s' := by
  obtain ⟨h1, h2, h3, h4, h5, h6, h7, h8, h9, h10, h11, h12, h13, h14, h15⟩ := h
  simp only [step?] at hs
  repeat' split at hs
  all_goals first | (cases hs; done) | skip
  all_goals cases hs
  all_goals constructor
  all_goals (try simp only [Bool.or_eq_true, Bool.and_eq_true, Bool.not_eq_true', bne_iff_ne, beq_iff_eq, ne_eq,
    not_or, not_and, Bool.not_eq_true, decide_eq_true_eq, List.isEmpty_iff, Option.isSome_iff_ne_none] at *)
  all_goals (try simp only [put_att, erase_att, put_pc, erase_pc, put_misc, erase_misc, getInflight_setAtt,
    setAtt_inflight, setAtt_live, setAtt_epoch, setAtt_err, setAtt_redial, setAtt_pc, setAtt_exiting, setAtt_fep,
    setAtt_fes, setAtt_fed, setAtt_execs, setAtt_decided, put_decided, erase_decided] at *)
  all_goals (try simp only [St.getInflight] at *)
  all_goals (try grind [St.setAtt, lk_put_self, lk_put_ne, lk_erase_self, lk_erase_ne, put_nonempty,
    lk_nil, erase_nil])

private theorem step_readError (s s' : St)  (h : Inv1 s) (hs : step? s (.readError) = some s') : Inv1 s' := by
  obtain ⟨h1, h2, h3, h4, h5, h6, h7, h8, h9, h10, h11, h12, h13, h14, h15⟩ := h
  simp only [step?] at hs
  repeat' split at hs
  all_goals first | (cases hs; done) | skip
  all_goals cases hs
  all_goals constructor
  all_goals (try simp only [Bool.or_eq_true, Bool.and_eq_true, Bool.not_eq_true', bne_iff_ne, beq_iff_eq, ne_eq,
    not_or, not_and, Bool.not_eq_true, decide_eq_true_eq, List.isEmpty_iff, Option.isSome_iff_ne_none] at *)
  all_goals (try simp only [put_att, erase_att, put_pc, erase_pc, put_misc, erase_misc, getInflight_setAtt,
    setAtt_inflight, setAtt_live, setAtt_epoch, setAtt_err, setAtt_redial, setAtt_pc, setAtt_exiting, setAtt_fep,
    setAtt_fes, setAtt_fed, setAtt_execs, setAtt_decided, put_decided, erase_decided] at *)
  all_goals (try simp only [St.getInflight] at *)
  all_goals (try grind [St.setAtt, lk_put_self, lk_put_ne, lk_erase_self, lk_erase_ne, put_nonempty,
    lk_nil, erase_nil])

private theorem step_reconnBegin (s s' : St)  (h : Inv1 s) (hs : step? s (.reconnBegin) = some s') : Inv1 s' := by
  obtain ⟨h1, h2, h3, h4, h5, h6, h7, h8, h9, h10, h11, h12, h13, h14, h15⟩ := h
  simp only [step?] at hs
  repeat' split at hs
  all_goals first | (cases hs; done) | skip
  all_goals cases hs
  all_goals constructor
  all_goals (try simp only [Bool.or_eq_true, Bool.and_eq_true, Bool.not_eq_true', bne_iff_ne, beq_iff_eq, ne_eq,
    not_or, not_and, Bool.not_eq_true, decide_eq_true_eq, List.isEmpty_iff, Option.isSome_iff_ne_none] at *)
  all_goals (try simp only [put_att, erase_att, put_pc, erase_pc, put_misc, erase_misc, getInflight_setAtt,
    setAtt_inflight, setAtt_live, setAtt_epoch, setAtt_err, setAtt_redial, setAtt_pc, setAtt_exiting, setAtt_fep,
    setAtt_fes, setAtt_fed, setAtt_execs, setAtt_decided, put_decided, erase_decided] at *)
  all_goals (try simp only [St.getInflight] at *)
  all_goals (try grind [St.setAtt, lk_put_self, lk_put_ne, lk_erase_self, lk_erase_ne, put_nonempty,
    lk_nil, erase_nil])

private theorem step_reconnSpawn (s s' : St)  (h : Inv1 s) (hs : step? s (.reconnSpawn) = some s') : Inv1 s' := by
  obtain ⟨h1, h2, h3, h4, h5, h6, h7, h8, h9, h10, h11, h12, h13, h14, h15⟩ := h
  simp only [step?] at hs
  repeat' split at hs
  all_goals first | (cases hs; done) | skip
  all_goals cases hs
  all_goals constructor
  all_goals (try simp only [Bool.or_eq_true, Bool.and_eq_true, Bool.not_eq_true', bne_iff_ne, beq_iff_eq, ne_eq,
    not_or, not_and, Bool.not_eq_true, decide_eq_true_eq, List.isEmpty_iff, Option.isSome_iff_ne_none] at *)
  all_goals (try simp only [put_att, erase_att, put_pc, erase_pc, put_misc, erase_misc, getInflight_setAtt,
    setAtt_inflight, setAtt_live, setAtt_epoch, setAtt_err, setAtt_redial, setAtt_pc, setAtt_exiting, setAtt_fep,
    setAtt_fes, setAtt_fed, setAtt_execs, setAtt_decided, put_decided, erase_decided] at *)
  all_goals (try simp only [St.getInflight] at *)
  all_goals (try grind [St.setAtt, lk_put_self, lk_put_ne, lk_erase_self, lk_erase_ne, put_nonempty,
    lk_nil, erase_nil])

private theorem step_swap (s s' : St)  (h : Inv1 s) (hs : step? s (.swap) = some s') : Inv1 s' := by
  obtain ⟨h1, h2, h3, h4, h5, h6, h7, h8, h9, h10, h11, h12, h13, h14, h15⟩ := h
  simp only [step?] at hs
  repeat' split at hs
  all_goals first | (cases hs; done) | skip
  all_goals cases hs
  all_goals constructor
  all_goals (try simp only [Bool.or_eq_true, Bool.and_eq_true, Bool.not_eq_true', bne_iff_ne, beq_iff_eq, ne_eq,
    not_or, not_and, Bool.not_eq_true, decide_eq_true_eq, List.isEmpty_iff, Option.isSome_iff_ne_none] at *)
  all_goals (try simp only [put_att, erase_att, put_pc, erase_pc, put_misc, erase_misc, getInflight_setAtt,
    setAtt_inflight, setAtt_live, setAtt_epoch, setAtt_err, setAtt_redial, setAtt_pc, setAtt_exiting, setAtt_fep,
    setAtt_fes, setAtt_fed, setAtt_execs, setAtt_decided, put_decided, erase_decided] at *)
  all_goals (try simp only [St.getInflight] at *)
  all_goals (try grind [St.setAtt, lk_put_self, lk_put_ne, lk_erase_self, lk_erase_ne, put_nonempty,
    lk_nil, erase_nil])

private theorem step_abort (s s' : St)  (h : Inv1 s) (hs : step? s (.abort) = some s') : Inv1 s' := by
  obtain ⟨h1, h2, h3, h4, h5, h6, h7, h8, h9, h10, h11, h12, h13, h14, h15⟩ := h
  simp only [step?] at hs
  repeat' split at hs
  all_goals first | (cases hs; done) | skip
  all_goals cases hs
  all_goals constructor
  all_goals (try simp only [Bool.or_eq_true, Bool.and_eq_true, Bool.not_eq_true', bne_iff_ne, beq_iff_eq, ne_eq,
    not_or, not_and, Bool.not_eq_true, decide_eq_true_eq, List.isEmpty_iff, Option.isSome_iff_ne_none] at *)
  all_goals (try simp only [put_att, erase_att, put_pc, erase_pc, put_misc, erase_misc, getInflight_setAtt,
    setAtt_inflight, setAtt_live, setAtt_epoch, setAtt_err, setAtt_redial, setAtt_pc, setAtt_exiting, setAtt_fep,
    setAtt_fes, setAtt_fed, setAtt_execs, setAtt_decided, put_decided, erase_decided] at *)
  all_goals (try simp only [St.getInflight] at *)
  all_goals (try grind [St.setAtt, lk_put_self, lk_put_ne, lk_erase_self, lk_erase_ne, put_nonempty,
    lk_nil, erase_nil])

private theorem step_exitBegin (s s' : St)  (h : Inv1 s) (hs : step? s (.exitBegin) = some s') : Inv1 s' := by
  obtain ⟨h1, h2, h3, h4, h5, h6, h7, h8, h9, h10, h11, h12, h13, h14, h15⟩ := h
  simp only [step?] at hs
  repeat' split at hs
  all_goals first | (cases hs; done) | skip
  all_goals cases hs
  all_goals constructor
  all_goals (try simp only [Bool.or_eq_true, Bool.and_eq_true, Bool.not_eq_true', bne_iff_ne, beq_iff_eq, ne_eq,
    not_or, not_and, Bool.not_eq_true, decide_eq_true_eq, List.isEmpty_iff, Option.isSome_iff_ne_none] at *)
  all_goals (try simp only [put_att, erase_att, put_pc, erase_pc, put_misc, erase_misc, getInflight_setAtt,
    setAtt_inflight, setAtt_live, setAtt_epoch, setAtt_err, setAtt_redial, setAtt_pc, setAtt_exiting, setAtt_fep,
    setAtt_fes, setAtt_fed, setAtt_execs, setAtt_decided, put_decided, erase_decided] at *)
  all_goals (try simp only [St.getInflight] at *)
  all_goals (try grind [St.setAtt, lk_put_self, lk_put_ne, lk_erase_self, lk_erase_ne, put_nonempty,
    lk_nil, erase_nil])

private theorem step_exited (s s' : St)  (h : Inv1 s) (hs : step? s (.exited) = some s') : Inv1 s' := by
  obtain ⟨h1, h2, h3, h4, h5, h6, h7, h8, h9, h10, h11, h12, h13, h14, h15⟩ := h
  simp only [step?] at hs
  repeat' split at hs
  all_goals first | (cases hs; done) | skip
  all_goals cases hs
  all_goals constructor
  all_goals (try simp only [Bool.or_eq_true, Bool.and_eq_true, Bool.not_eq_true', bne_iff_ne, beq_iff_eq, ne_eq,
    not_or, not_and, Bool.not_eq_true, decide_eq_true_eq, List.isEmpty_iff, Option.isSome_iff_ne_none] at *)
  all_goals (try simp only [put_att, erase_att, put_pc, erase_pc, put_misc, erase_misc, getInflight_setAtt,
    setAtt_inflight, setAtt_live, setAtt_epoch, setAtt_err, setAtt_redial, setAtt_pc, setAtt_exiting, setAtt_fep,
    setAtt_fes, setAtt_fed, setAtt_execs, setAtt_decided, put_decided, erase_decided] at *)
  all_goals (try simp only [St.getInflight] at *)
  all_goals (try grind [St.setAtt, lk_put_self, lk_put_ne, lk_erase_self, lk_erase_ne, put_nonempty,
    lk_nil, erase_nil])

private theorem step_peerExec (s s' : St) (a : Nat) (h : Inv1 s) (hs : step? s (.peerExec a) = some s') : Inv1 s' := by
  obtain ⟨h1, h2, h3, h4, h5, h6, h7, h8, h9, h10, h11, h12, h13, h14, h15⟩ := h
  simp only [step?] at hs
  repeat' split at hs
  all_goals first | (cases hs; done) | skip
  all_goals cases hs
  all_goals constructor
  all_goals (try simp only [Bool.or_eq_true, Bool.and_eq_true, Bool.not_eq_true', bne_iff_ne, beq_iff_eq, ne_eq,
    not_or, not_and, Bool.not_eq_true, decide_eq_true_eq, List.isEmpty_iff, Option.isSome_iff_ne_none] at *)
  all_goals (try simp only [put_att, erase_att, put_pc, erase_pc, put_misc, erase_misc, getInflight_setAtt,
    setAtt_inflight, setAtt_live, setAtt_epoch, setAtt_err, setAtt_redial, setAtt_pc, setAtt_exiting, setAtt_fep,
    setAtt_fes, setAtt_fed, setAtt_execs, setAtt_decided, put_decided, erase_decided] at *)
  all_goals (try simp only [St.getInflight] at *)
  all_goals (try grind [St.setAtt, lk_put_self, lk_put_ne, lk_erase_self, lk_erase_ne, put_nonempty,
    lk_nil, erase_nil])

/-- Every event preserves `Inv1`. -/
theorem step_inv1 (s s' : St) (e : Ev) (h : Inv1 s) (hs : step? s e = some s') : Inv1 s' := by
  cases e with
  | enq a id => exact step_enq s s' a id h hs
  | exitErr a => exact step_exitErr s s' a h hs
  | recv a e => exact step_recv s s' a e h hs
  | take a => exact step_take s s' a h hs
  | errCheck a b => exact step_errCheck s s' a b h hs
  | failfast a => exact step_failfast s s' a h hs
  | register a => exact step_register s s' a h hs
  | wrote a => exact step_wrote s s' a h hs
  | notifReply a b => exact step_notifReply s s' a b h hs
  | lookup id f => exact step_lookup s s' id f h hs
  | deliver id a => exact step_deliver s s' id a h hs
  | deliverDone  => exact step_deliverDone s s'  h hs
  | delete id => exact step_delete s s' id h hs
  | cifSend id a ok => exact step_cifSend s s' id a ok h hs
  | cifClear  => exact step_cifClear s s'  h hs
  | readerErr  => exact step_readerErr s s'  h hs
  | readError  => exact step_readError s s'  h hs
  | reconnBegin  => exact step_reconnBegin s s'  h hs
  | reconnSpawn  => exact step_reconnSpawn s s'  h hs
  | swap  => exact step_swap s s'  h hs
  | abort  => exact step_abort s s'  h hs
  | exitBegin  => exact step_exitBegin s s'  h hs
  | exited  => exact step_exited s s'  h hs
  | peerExec a => exact step_peerExec s s' a h hs

set_option maxHeartbeats 8000000

theorem nodup_fst_unique (l : List (NId × Nat)) (h : (liveIds l).Nodup) (id : NId) (a b : Nat)
    (ha : (id, a) ∈ l) (hb : (id, b) ∈ l) : a = b := by
  induction l with
  | nil => cases ha
  | cons p t ih =>
    simp only [liveIds, List.map_cons, List.nodup_cons] at h
    rcases List.mem_cons.mp ha with ha | ha <;> rcases List.mem_cons.mp hb with hb | hb
    · rw [← ha] at hb; cases hb; rfl
    · exfalso; apply h.1; rw [← ha]; exact List.mem_map.mpr ⟨(id, b), hb, rfl⟩
    · exfalso; apply h.1; rw [← hb]; exact List.mem_map.mpr ⟨(id, a), ha, rfl⟩
    · exact ih h.2 ha hb

theorem nodup_filter (l : List (NId × Nat)) (f : NId × Nat → Bool) (h : (liveIds l).Nodup) :
    (liveIds (l.filter f)).Nodup := by
  unfold liveIds at *
  exact List.Nodup.sublist (List.Sublist.map _ List.filter_sublist) h

theorem all_of_mem (l : List (NId × Nat)) (f : NId × Nat → Bool) (h : l.all f = true) (p : NId × Nat) (hp : p ∈ l) :
    f p = true := List.all_eq_true.mp h p hp

/-- Ownership invariants (they use the bookkeeping of live ids). -/
structure Inv2 (s : St) : Prop where
  liveUniq : (liveIds s.live).Nodup
  liveAtt : ∀ id a, (id, a) ∈ s.live → (s.att a).id = id ∧ (s.att a).enq = true ∧ id ≠ .nil ∧
              (s.att a).recvd = none ∧ (s.att a).exitErr = false
  liveAll : ∀ a, (s.att a).enq = true → (s.att a).id ≠ .nil → (s.att a).recvd = none → (s.att a).exitErr = false →
              ((s.att a).id, a) ∈ s.live
  exitTaken : ∀ a, (s.att a).exitErr = true → (s.att a).taken = false
  deliveredMail : ∀ id a, s.feDelivered = some (id, a) → (s.att a).mail ≠ [] ∨ (s.att a).recvd ≠ none
  handlingReg : ∀ a, s.mainPc = .handling a → (s.att a).registered = true → s.inflight.lookup (s.att a).id = some a
  handlingWrote0 : ∀ a, s.mainPc = .handling a → (s.att a).id ≠ .nil → (s.att a).wrote = 0
  owner : ∀ a, (s.att a).taken = true → (s.att a).id ≠ .nil → (s.att a).mail = [] → (s.att a).recvd = none →
      s.mainPc = .handling a ∨ s.inflight.lookup (s.att a).id = some a ∨
      s.fePending = some ((s.att a).id, a) ∨ s.feSending = some ((s.att a).id, a)
  inflEpoch : ∀ id a, s.inflight.lookup id = some a → (s.att a).epoch = s.epoch
  exitEnq : ∀ a, (s.att a).exitErr = true → (s.att a).enq = true
  untaken : ∀ a, (s.att a).taken = false → (s.att a).mail = [] ∧ (s.att a).recvd = none
  handlingFresh : ∀ a, s.mainPc = .handling a → (s.att a).mail = [] ∧ (s.att a).recvd = none
  feOne : (s.fePending ≠ none → s.feSending = none ∧ s.feDelivered = none) ∧
          (s.feSending ≠ none → s.fePending = none ∧ s.feDelivered = none) ∧
          (s.feDelivered ≠ none → s.fePending = none ∧ s.feSending = none)

theorem inv2_init : Inv2 {} := by
  constructor <;> simp [liveIds]

private theorem step2_enq (s s' : St) (a : Nat) (id : NId) (g : Inv1 s) (h : Inv2 s) (hs : step? s (.enq a id) = some s') : Inv2 s' := by
  obtain ⟨g1, g2, g3, g4, g5, g6, g7, g8, g9, g10, g11, g12, g13, g14, g15⟩ := g
  obtain ⟨h1, h2, h3, h4, h5, h6, h7, h8, h9, h10, h13, h12, h11⟩ := h
  have takenEnq : ∀ x, (s.att x).taken = true → (s.att x).enq = true := by
    intro x hx; cases he : (s.att x).enq with
    | true => rfl
    | false => have := (g11 x he).2.2.1; rw [hx] at this; cases this
  have takenNoExit : ∀ x, (s.att x).taken = true → (s.att x).exitErr = false := by
    intro x hx; cases he : (s.att x).exitErr with
    | false => rfl
    | true => have := h4 x he; rw [hx] at this; cases this
  simp only [step?] at hs
  repeat' split at hs
  all_goals first | (cases hs; done) | skip
  all_goals cases hs
  all_goals constructor
  all_goals (try simp only [Bool.or_eq_true, Bool.and_eq_true, Bool.not_eq_true', bne_iff_ne, beq_iff_eq, ne_eq,
    not_or, not_and, Bool.not_eq_true, decide_eq_true_eq, List.isEmpty_iff, Option.isSome_iff_ne_none] at *)
  all_goals (try simp only [put_att, erase_att, put_pc, erase_pc, put_misc, erase_misc, getInflight_setAtt,
    setAtt_inflight, setAtt_live, setAtt_epoch, setAtt_err, setAtt_redial, setAtt_pc, setAtt_exiting, setAtt_fep,
    setAtt_fes, setAtt_fed, setAtt_execs, setAtt_decided, put_decided, erase_decided] at *)
  all_goals (try simp only [St.getInflight] at *)
  all_goals (try grind [St.setAtt, lk_put_self, lk_put_ne, lk_erase_self, lk_erase_ne, put_nonempty,
    lk_nil, erase_nil, nodup_fst_unique, nodup_filter, mem_of_lookup, all_of_mem, liveIds])

private theorem step2_exitErr (s s' : St) (a : Nat) (g : Inv1 s) (h : Inv2 s) (hs : step? s (.exitErr a) = some s') : Inv2 s' := by
  obtain ⟨g1, g2, g3, g4, g5, g6, g7, g8, g9, g10, g11, g12, g13, g14, g15⟩ := g
  obtain ⟨h1, h2, h3, h4, h5, h6, h7, h8, h9, h10, h13, h12, h11⟩ := h
  have takenEnq : ∀ x, (s.att x).taken = true → (s.att x).enq = true := by
    intro x hx; cases he : (s.att x).enq with
    | true => rfl
    | false => have := (g11 x he).2.2.1; rw [hx] at this; cases this
  have takenNoExit : ∀ x, (s.att x).taken = true → (s.att x).exitErr = false := by
    intro x hx; cases he : (s.att x).exitErr with
    | false => rfl
    | true => have := h4 x he; rw [hx] at this; cases this
  simp only [step?] at hs
  repeat' split at hs
  all_goals first | (cases hs; done) | skip
  all_goals cases hs
  all_goals constructor
  all_goals (try simp only [Bool.or_eq_true, Bool.and_eq_true, Bool.not_eq_true', bne_iff_ne, beq_iff_eq, ne_eq,
    not_or, not_and, Bool.not_eq_true, decide_eq_true_eq, List.isEmpty_iff, Option.isSome_iff_ne_none] at *)
  all_goals (try simp only [put_att, erase_att, put_pc, erase_pc, put_misc, erase_misc, getInflight_setAtt,
    setAtt_inflight, setAtt_live, setAtt_epoch, setAtt_err, setAtt_redial, setAtt_pc, setAtt_exiting, setAtt_fep,
    setAtt_fes, setAtt_fed, setAtt_execs, setAtt_decided, put_decided, erase_decided] at *)
  all_goals (try simp only [St.getInflight] at *)
  all_goals (try grind [St.setAtt, lk_put_self, lk_put_ne, lk_erase_self, lk_erase_ne, put_nonempty,
    lk_nil, erase_nil, nodup_fst_unique, nodup_filter, mem_of_lookup, all_of_mem, liveIds])

private theorem step2_recv (s s' : St) (a : Nat) (e : Bool) (g : Inv1 s) (h : Inv2 s) (hs : step? s (.recv a e) = some s') : Inv2 s' := by
  obtain ⟨g1, g2, g3, g4, g5, g6, g7, g8, g9, g10, g11, g12, g13, g14, g15⟩ := g
  obtain ⟨h1, h2, h3, h4, h5, h6, h7, h8, h9, h10, h13, h12, h11⟩ := h
  have takenEnq : ∀ x, (s.att x).taken = true → (s.att x).enq = true := by
    intro x hx; cases he : (s.att x).enq with
    | true => rfl
    | false => have := (g11 x he).2.2.1; rw [hx] at this; cases this
  have takenNoExit : ∀ x, (s.att x).taken = true → (s.att x).exitErr = false := by
    intro x hx; cases he : (s.att x).exitErr with
    | false => rfl
    | true => have := h4 x he; rw [hx] at this; cases this
  simp only [step?] at hs
  repeat' split at hs
  all_goals first | (cases hs; done) | skip
  all_goals cases hs
  all_goals constructor
  all_goals (try simp only [Bool.or_eq_true, Bool.and_eq_true, Bool.not_eq_true', bne_iff_ne, beq_iff_eq, ne_eq,
    not_or, not_and, Bool.not_eq_true, decide_eq_true_eq, List.isEmpty_iff, Option.isSome_iff_ne_none] at *)
  all_goals (try simp only [put_att, erase_att, put_pc, erase_pc, put_misc, erase_misc, getInflight_setAtt,
    setAtt_inflight, setAtt_live, setAtt_epoch, setAtt_err, setAtt_redial, setAtt_pc, setAtt_exiting, setAtt_fep,
    setAtt_fes, setAtt_fed, setAtt_execs, setAtt_decided, put_decided, erase_decided] at *)
  all_goals (try simp only [St.getInflight] at *)
  all_goals (try grind [St.setAtt, lk_put_self, lk_put_ne, lk_erase_self, lk_erase_ne, put_nonempty,
    lk_nil, erase_nil, nodup_fst_unique, nodup_filter, mem_of_lookup, all_of_mem, liveIds])

private theorem step2_take (s s' : St) (a : Nat) (g : Inv1 s) (h : Inv2 s) (hs : step? s (.take a) = some s') : Inv2 s' := by
  obtain ⟨g1, g2, g3, g4, g5, g6, g7, g8, g9, g10, g11, g12, g13, g14, g15⟩ := g
  obtain ⟨h1, h2, h3, h4, h5, h6, h7, h8, h9, h10, h13, h12, h11⟩ := h
  have takenEnq : ∀ x, (s.att x).taken = true → (s.att x).enq = true := by
    intro x hx; cases he : (s.att x).enq with
    | true => rfl
    | false => have := (g11 x he).2.2.1; rw [hx] at this; cases this
  have takenNoExit : ∀ x, (s.att x).taken = true → (s.att x).exitErr = false := by
    intro x hx; cases he : (s.att x).exitErr with
    | false => rfl
    | true => have := h4 x he; rw [hx] at this; cases this
  simp only [step?] at hs
  repeat' split at hs
  all_goals first | (cases hs; done) | skip
  all_goals cases hs
  all_goals constructor
  all_goals (try simp only [Bool.or_eq_true, Bool.and_eq_true, Bool.not_eq_true', bne_iff_ne, beq_iff_eq, ne_eq,
    not_or, not_and, Bool.not_eq_true, decide_eq_true_eq, List.isEmpty_iff, Option.isSome_iff_ne_none] at *)
  all_goals (try simp only [put_att, erase_att, put_pc, erase_pc, put_misc, erase_misc, getInflight_setAtt,
    setAtt_inflight, setAtt_live, setAtt_epoch, setAtt_err, setAtt_redial, setAtt_pc, setAtt_exiting, setAtt_fep,
    setAtt_fes, setAtt_fed, setAtt_execs, setAtt_decided, put_decided, erase_decided] at *)
  all_goals (try simp only [St.getInflight] at *)
  all_goals (try grind [St.setAtt, lk_put_self, lk_put_ne, lk_erase_self, lk_erase_ne, put_nonempty,
    lk_nil, erase_nil, nodup_fst_unique, nodup_filter, mem_of_lookup, all_of_mem, liveIds])

private theorem step2_errCheck (s s' : St) (a : Nat) (b : Bool) (g : Inv1 s) (h : Inv2 s) (hs : step? s (.errCheck a b) = some s') : Inv2 s' := by
  obtain ⟨g1, g2, g3, g4, g5, g6, g7, g8, g9, g10, g11, g12, g13, g14, g15⟩ := g
  obtain ⟨h1, h2, h3, h4, h5, h6, h7, h8, h9, h10, h13, h12, h11⟩ := h
  have takenEnq : ∀ x, (s.att x).taken = true → (s.att x).enq = true := by
    intro x hx; cases he : (s.att x).enq with
    | true => rfl
    | false => have := (g11 x he).2.2.1; rw [hx] at this; cases this
  have takenNoExit : ∀ x, (s.att x).taken = true → (s.att x).exitErr = false := by
    intro x hx; cases he : (s.att x).exitErr with
    | false => rfl
    | true => have := h4 x he; rw [hx] at this; cases this
  simp only [step?] at hs
  repeat' split at hs
  all_goals first | (cases hs; done) | skip
  all_goals cases hs
  all_goals constructor
  all_goals (try simp only [Bool.or_eq_true, Bool.and_eq_true, Bool.not_eq_true', bne_iff_ne, beq_iff_eq, ne_eq,
    not_or, not_and, Bool.not_eq_true, decide_eq_true_eq, List.isEmpty_iff, Option.isSome_iff_ne_none] at *)
  all_goals (try simp only [put_att, erase_att, put_pc, erase_pc, put_misc, erase_misc, getInflight_setAtt,
    setAtt_inflight, setAtt_live, setAtt_epoch, setAtt_err, setAtt_redial, setAtt_pc, setAtt_exiting, setAtt_fep,
    setAtt_fes, setAtt_fed, setAtt_execs, setAtt_decided, put_decided, erase_decided] at *)
  all_goals (try simp only [St.getInflight] at *)
  all_goals (try grind [St.setAtt, lk_put_self, lk_put_ne, lk_erase_self, lk_erase_ne, put_nonempty,
    lk_nil, erase_nil, nodup_fst_unique, nodup_filter, mem_of_lookup, all_of_mem, liveIds])

private theorem step2_failfast (s s' : St) (a : Nat) (g : Inv1 s) (h : Inv2 s) (hs : step? s (.failfast a) = some s') : Inv2 s' := by
  obtain ⟨g1, g2, g3, g4, g5, g6, g7, g8, g9, g10, g11, g12, g13, g14, g15⟩ := g
  obtain ⟨h1, h2, h3, h4, h5, h6, h7, h8, h9, h10, h13, h12, h11⟩ := h
  have takenEnq : ∀ x, (s.att x).taken = true → (s.att x).enq = true := by
    intro x hx; cases he : (s.att x).enq with
    | true => rfl
    | false => have := (g11 x he).2.2.1; rw [hx] at this; cases this
  have takenNoExit : ∀ x, (s.att x).taken = true → (s.att x).exitErr = false := by
    intro x hx; cases he : (s.att x).exitErr with
    | false => rfl
    | true => have := h4 x he; rw [hx] at this; cases this
  simp only [step?] at hs
  repeat' split at hs
  all_goals first | (cases hs; done) | skip
  all_goals cases hs
  all_goals constructor
  all_goals (try simp only [Bool.or_eq_true, Bool.and_eq_true, Bool.not_eq_true', bne_iff_ne, beq_iff_eq, ne_eq,
    not_or, not_and, Bool.not_eq_true, decide_eq_true_eq, List.isEmpty_iff, Option.isSome_iff_ne_none] at *)
  all_goals (try simp only [put_att, erase_att, put_pc, erase_pc, put_misc, erase_misc, getInflight_setAtt,
    setAtt_inflight, setAtt_live, setAtt_epoch, setAtt_err, setAtt_redial, setAtt_pc, setAtt_exiting, setAtt_fep,
    setAtt_fes, setAtt_fed, setAtt_execs, setAtt_decided, put_decided, erase_decided] at *)
  all_goals (try simp only [St.getInflight] at *)
  all_goals (try grind [St.setAtt, lk_put_self, lk_put_ne, lk_erase_self, lk_erase_ne, put_nonempty,
    lk_nil, erase_nil, nodup_fst_unique, nodup_filter, mem_of_lookup, all_of_mem, liveIds])

private theorem step2_register (s s' : St) (a : Nat) (g : Inv1 s) (h : Inv2 s) (hs : step? s (.register a) = some s') : Inv2 s' := by
  obtain ⟨g1, g2, g3, g4, g5, g6, g7, g8, g9, g10, g11, g12, g13, g14, g15⟩ := g
  obtain ⟨h1, h2, h3, h4, h5, h6, h7, h8, h9, h10, h13, h12, h11⟩ := h
  have takenEnq : ∀ x, (s.att x).taken = true → (s.att x).enq = true := by
    intro x hx; cases he : (s.att x).enq with
    | true => rfl
    | false => have := (g11 x he).2.2.1; rw [hx] at this; cases this
  have takenNoExit : ∀ x, (s.att x).taken = true → (s.att x).exitErr = false := by
    intro x hx; cases he : (s.att x).exitErr with
    | false => rfl
    | true => have := h4 x he; rw [hx] at this; cases this
  simp only [step?] at hs
  repeat' split at hs
  all_goals first | (cases hs; done) | skip
  all_goals cases hs
  all_goals constructor
  all_goals (try simp only [Bool.or_eq_true, Bool.and_eq_true, Bool.not_eq_true', bne_iff_ne, beq_iff_eq, ne_eq,
    not_or, not_and, Bool.not_eq_true, decide_eq_true_eq, List.isEmpty_iff, Option.isSome_iff_ne_none] at *)
  all_goals (try simp only [put_att, erase_att, put_pc, erase_pc, put_misc, erase_misc, getInflight_setAtt,
    setAtt_inflight, setAtt_live, setAtt_epoch, setAtt_err, setAtt_redial, setAtt_pc, setAtt_exiting, setAtt_fep,
    setAtt_fes, setAtt_fed, setAtt_execs, setAtt_decided, put_decided, erase_decided] at *)
  all_goals (try simp only [St.getInflight] at *)
  all_goals (try grind [St.setAtt, lk_put_self, lk_put_ne, lk_erase_self, lk_erase_ne, put_nonempty,
    lk_nil, erase_nil, nodup_fst_unique, nodup_filter, mem_of_lookup, all_of_mem, liveIds])

private theorem step2_wrote (s s' : St) (a : Nat) (g : Inv1 s) (h : Inv2 s) (hs : step? s (.wrote a) = some s') : Inv2 s' := by
  obtain ⟨g1, g2, g3, g4, g5, g6, g7, g8, g9, g10, g11, g12, g13, g14, g15⟩ := g
  obtain ⟨h1, h2, h3, h4, h5, h6, h7, h8, h9, h10, h13, h12, h11⟩ := h
  have takenEnq : ∀ x, (s.att x).taken = true → (s.att x).enq = true := by
    intro x hx; cases he : (s.att x).enq with
    | true => rfl
    | false => have := (g11 x he).2.2.1; rw [hx] at this; cases this
  have takenNoExit : ∀ x, (s.att x).taken = true → (s.att x).exitErr = false := by
    intro x hx; cases he : (s.att x).exitErr with
    | false => rfl
    | true => have := h4 x he; rw [hx] at this; cases this
  simp only [step?] at hs
  repeat' split at hs
  all_goals first | (cases hs; done) | skip
  all_goals cases hs
  all_goals constructor
  all_goals (try simp only [Bool.or_eq_true, Bool.and_eq_true, Bool.not_eq_true', bne_iff_ne, beq_iff_eq, ne_eq,
    not_or, not_and, Bool.not_eq_true, decide_eq_true_eq, List.isEmpty_iff, Option.isSome_iff_ne_none] at *)
  all_goals (try simp only [put_att, erase_att, put_pc, erase_pc, put_misc, erase_misc, getInflight_setAtt,
    setAtt_inflight, setAtt_live, setAtt_epoch, setAtt_err, setAtt_redial, setAtt_pc, setAtt_exiting, setAtt_fep,
    setAtt_fes, setAtt_fed, setAtt_execs, setAtt_decided, put_decided, erase_decided] at *)
  all_goals (try simp only [St.getInflight] at *)
  all_goals (try grind [St.setAtt, lk_put_self, lk_put_ne, lk_erase_self, lk_erase_ne, put_nonempty,
    lk_nil, erase_nil, nodup_fst_unique, nodup_filter, mem_of_lookup, all_of_mem, liveIds])

private theorem step2_notifReply (s s' : St) (a : Nat) (b : Bool) (g : Inv1 s) (h : Inv2 s) (hs : step? s (.notifReply a b) = some s') : Inv2 s' := by
  obtain ⟨g1, g2, g3, g4, g5, g6, g7, g8, g9, g10, g11, g12, g13, g14, g15⟩ := g
  obtain ⟨h1, h2, h3, h4, h5, h6, h7, h8, h9, h10, h13, h12, h11⟩ := h
  have takenEnq : ∀ x, (s.att x).taken = true → (s.att x).enq = true := by
    intro x hx; cases he : (s.att x).enq with
    | true => rfl
    | false => have := (g11 x he).2.2.1; rw [hx] at this; cases this
  have takenNoExit : ∀ x, (s.att x).taken = true → (s.att x).exitErr = false := by
    intro x hx; cases he : (s.att x).exitErr with
    | false => rfl
    | true => have := h4 x he; rw [hx] at this; cases this
  simp only [step?] at hs
  repeat' split at hs
  all_goals first | (cases hs; done) | skip
  all_goals cases hs
  all_goals constructor
  all_goals (try simp only [Bool.or_eq_true, Bool.and_eq_true, Bool.not_eq_true', bne_iff_ne, beq_iff_eq, ne_eq,
    not_or, not_and, Bool.not_eq_true, decide_eq_true_eq, List.isEmpty_iff, Option.isSome_iff_ne_none] at *)
  all_goals (try simp only [put_att, erase_att, put_pc, erase_pc, put_misc, erase_misc, getInflight_setAtt,
    setAtt_inflight, setAtt_live, setAtt_epoch, setAtt_err, setAtt_redial, setAtt_pc, setAtt_exiting, setAtt_fep,
    setAtt_fes, setAtt_fed, setAtt_execs, setAtt_decided, put_decided, erase_decided] at *)
  all_goals (try simp only [St.getInflight] at *)
  all_goals (try grind [St.setAtt, lk_put_self, lk_put_ne, lk_erase_self, lk_erase_ne, put_nonempty,
    lk_nil, erase_nil, nodup_fst_unique, nodup_filter, mem_of_lookup, all_of_mem, liveIds])

private theorem step2_lookup (s s' : St) (id : NId) (f : Bool) (g : Inv1 s) (h : Inv2 s) (hs : step? s (.lookup id f) = some s') : Inv2 s' := by
  obtain ⟨g1, g2, g3, g4, g5, g6, g7, g8, g9, g10, g11, g12, g13, g14, g15⟩ := g
  obtain ⟨h1, h2, h3, h4, h5, h6, h7, h8, h9, h10, h13, h12, h11⟩ := h
  have takenEnq : ∀ x, (s.att x).taken = true → (s.att x).enq = true := by
    intro x hx; cases he : (s.att x).enq with
    | true => rfl
    | false => have := (g11 x he).2.2.1; rw [hx] at this; cases this
  have takenNoExit : ∀ x, (s.att x).taken = true → (s.att x).exitErr = false := by
    intro x hx; cases he : (s.att x).exitErr with
    | false => rfl
    | true => have := h4 x he; rw [hx] at this; cases this
  simp only [step?] at hs
  repeat' split at hs
  all_goals first | (cases hs; done) | skip
  all_goals cases hs
  all_goals constructor
  all_goals (try simp only [Bool.or_eq_true, Bool.and_eq_true, Bool.not_eq_true', bne_iff_ne, beq_iff_eq, ne_eq,
    not_or, not_and, Bool.not_eq_true, decide_eq_true_eq, List.isEmpty_iff, Option.isSome_iff_ne_none] at *)
  all_goals (try simp only [put_att, erase_att, put_pc, erase_pc, put_misc, erase_misc, getInflight_setAtt,
    setAtt_inflight, setAtt_live, setAtt_epoch, setAtt_err, setAtt_redial, setAtt_pc, setAtt_exiting, setAtt_fep,
    setAtt_fes, setAtt_fed, setAtt_execs, setAtt_decided, put_decided, erase_decided] at *)
  all_goals (try simp only [St.getInflight] at *)
  all_goals (try grind [St.setAtt, lk_put_self, lk_put_ne, lk_erase_self, lk_erase_ne, put_nonempty,
    lk_nil, erase_nil, nodup_fst_unique, nodup_filter, mem_of_lookup, all_of_mem, liveIds])

private theorem step2_deliver (s s' : St) (id : NId) (a : Nat) (g : Inv1 s) (h : Inv2 s) (hs : step? s (.deliver id a) = some s') : Inv2 s' := by
  obtain ⟨g1, g2, g3, g4, g5, g6, g7, g8, g9, g10, g11, g12, g13, g14, g15⟩ := g
  obtain ⟨h1, h2, h3, h4, h5, h6, h7, h8, h9, h10, h13, h12, h11⟩ := h
  have takenEnq : ∀ x, (s.att x).taken = true → (s.att x).enq = true := by
    intro x hx; cases he : (s.att x).enq with
    | true => rfl
    | false => have := (g11 x he).2.2.1; rw [hx] at this; cases this
  have takenNoExit : ∀ x, (s.att x).taken = true → (s.att x).exitErr = false := by
    intro x hx; cases he : (s.att x).exitErr with
    | false => rfl
    | true => have := h4 x he; rw [hx] at this; cases this
  simp only [step?] at hs
  repeat' split at hs
  all_goals first | (cases hs; done) | skip
  all_goals cases hs
  all_goals constructor
  all_goals (try simp only [Bool.or_eq_true, Bool.and_eq_true, Bool.not_eq_true', bne_iff_ne, beq_iff_eq, ne_eq,
    not_or, not_and, Bool.not_eq_true, decide_eq_true_eq, List.isEmpty_iff, Option.isSome_iff_ne_none] at *)
  all_goals (try simp only [put_att, erase_att, put_pc, erase_pc, put_misc, erase_misc, getInflight_setAtt,
    setAtt_inflight, setAtt_live, setAtt_epoch, setAtt_err, setAtt_redial, setAtt_pc, setAtt_exiting, setAtt_fep,
    setAtt_fes, setAtt_fed, setAtt_execs, setAtt_decided, put_decided, erase_decided] at *)
  all_goals (try simp only [St.getInflight] at *)
  all_goals (try grind [St.setAtt, lk_put_self, lk_put_ne, lk_erase_self, lk_erase_ne, put_nonempty,
    lk_nil, erase_nil, nodup_fst_unique, nodup_filter, mem_of_lookup, all_of_mem, liveIds])

private theorem step2_deliverDone (s s' : St)  (g : Inv1 s) (h : Inv2 s) (hs : step? s (.deliverDone) = some s') : Inv2 s' := by
  obtain ⟨g1, g2, g3, g4, g5, g6, g7, g8, g9, g10, g11, g12, g13, g14, g15⟩ := g
  obtain ⟨h1, h2, h3, h4, h5, h6, h7, h8, h9, h10, h13, h12, h11⟩ := h
  have takenEnq : ∀ x, (s.att x).taken = true → (s.att x).enq = true := by
    intro x hx; cases he : (s.att x).enq with
    | true => rfl
    | false => have := (g11 x he).2.2.1; rw [hx] at this; cases this
  have takenNoExit : ∀ x, (s.att x).taken = true → (s.att x).exitErr = false := by
    intro x hx; cases he : (s.att x).exitErr with
    | false => rfl
    | true => have := h4 x he; rw [hx] at this; cases this
  simp only [step?] at hs
  repeat' split at hs
  all_goals first | (cases hs; done) | skip
  all_goals cases hs
  all_goals constructor
  all_goals (try simp only [Bool.or_eq_true, Bool.and_eq_true, Bool.not_eq_true', bne_iff_ne, beq_iff_eq, ne_eq,
    not_or, not_and, Bool.not_eq_true, decide_eq_true_eq, List.isEmpty_iff, Option.isSome_iff_ne_none] at *)
  all_goals (try simp only [put_att, erase_att, put_pc, erase_pc, put_misc, erase_misc, getInflight_setAtt,
    setAtt_inflight, setAtt_live, setAtt_epoch, setAtt_err, setAtt_redial, setAtt_pc, setAtt_exiting, setAtt_fep,
    setAtt_fes, setAtt_fed, setAtt_execs, setAtt_decided, put_decided, erase_decided] at *)
  all_goals (try simp only [St.getInflight] at *)
  all_goals (try grind [St.setAtt, lk_put_self, lk_put_ne, lk_erase_self, lk_erase_ne, put_nonempty,
    lk_nil, erase_nil, nodup_fst_unique, nodup_filter, mem_of_lookup, all_of_mem, liveIds])

private theorem step2_delete (s s' : St) (id : NId) (g : Inv1 s) (h : Inv2 s) (hs : step? s (.delete id) = some s') : Inv2 s' := by
  obtain ⟨g1, g2, g3, g4, g5, g6, g7, g8, g9, g10, g11, g12, g13, g14, g15⟩ := g
  obtain ⟨h1, h2, h3, h4, h5, h6, h7, h8, h9, h10, h13, h12, h11⟩ := h
  have takenEnq : ∀ x, (s.att x).taken = true → (s.att x).enq = true := by
    intro x hx; cases he : (s.att x).enq with
    | true => rfl
    | false => have := (g11 x he).2.2.1; rw [hx] at this; cases this
  have takenNoExit : ∀ x, (s.att x).taken = true → (s.att x).exitErr = false := by
    intro x hx; cases he : (s.att x).exitErr with
    | false => rfl
    | true => have := h4 x he; rw [hx] at this; cases this
  simp only [step?] at hs
  repeat' split at hs
  all_goals first | (cases hs; done) | skip
  all_goals cases hs
  all_goals constructor
  all_goals (try simp only [Bool.or_eq_true, Bool.and_eq_true, Bool.not_eq_true', bne_iff_ne, beq_iff_eq, ne_eq,
    not_or, not_and, Bool.not_eq_true, decide_eq_true_eq, List.isEmpty_iff, Option.isSome_iff_ne_none] at *)
  all_goals (try simp only [put_att, erase_att, put_pc, erase_pc, put_misc, erase_misc, getInflight_setAtt,
    setAtt_inflight, setAtt_live, setAtt_epoch, setAtt_err, setAtt_redial, setAtt_pc, setAtt_exiting, setAtt_fep,
    setAtt_fes, setAtt_fed, setAtt_execs, setAtt_decided, put_decided, erase_decided] at *)
  all_goals (try simp only [St.getInflight] at *)
  all_goals (try grind [St.setAtt, lk_put_self, lk_put_ne, lk_erase_self, lk_erase_ne, put_nonempty,
    lk_nil, erase_nil, nodup_fst_unique, nodup_filter, mem_of_lookup, all_of_mem, liveIds])

private theorem step2_cifSend (s s' : St) (id : NId) (a : Nat) (ok : Bool) (g : Inv1 s) (h : Inv2 s) (hs : step? s (.cifSend id a ok) = some s') : Inv2 s' := by
  obtain ⟨g1, g2, g3, g4, g5, g6, g7, g8, g9, g10, g11, g12, g13, g14, g15⟩ := g
  obtain ⟨h1, h2, h3, h4, h5, h6, h7, h8, h9, h10, h13, h12, h11⟩ := h
  have takenEnq : ∀ x, (s.att x).taken = true → (s.att x).enq = true := by
    intro x hx; cases he : (s.att x).enq with
    | true => rfl
    | false => have := (g11 x he).2.2.1; rw [hx] at this; cases this
  have takenNoExit : ∀ x, (s.att x).taken = true → (s.att x).exitErr = false := by
    intro x hx; cases he : (s.att x).exitErr with
    | false => rfl
    | true => have := h4 x he; rw [hx] at this; cases this
  simp only [step?] at hs
  repeat' split at hs
  all_goals first | (cases hs; done) | skip
  all_goals cases hs
  all_goals constructor
  all_goals (try simp only [Bool.or_eq_true, Bool.and_eq_true, Bool.not_eq_true', bne_iff_ne, beq_iff_eq, ne_eq,
    not_or, not_and, Bool.not_eq_true, decide_eq_true_eq, List.isEmpty_iff, Option.isSome_iff_ne_none] at *)
  all_goals (try simp only [put_att, erase_att, put_pc, erase_pc, put_misc, erase_misc, getInflight_setAtt,
    setAtt_inflight, setAtt_live, setAtt_epoch, setAtt_err, setAtt_redial, setAtt_pc, setAtt_exiting, setAtt_fep,
    setAtt_fes, setAtt_fed, setAtt_execs, setAtt_decided, put_decided, erase_decided] at *)
  all_goals (try simp only [St.getInflight] at *)
  all_goals (try grind [St.setAtt, lk_put_self, lk_put_ne, lk_erase_self, lk_erase_ne, put_nonempty,
    lk_nil, erase_nil, nodup_fst_unique, nodup_filter, mem_of_lookup, all_of_mem, liveIds])

private theorem step2_cifClear (s s' : St)  (g : Inv1 s) (h : Inv2 s) (hs : step? s (.cifClear) = some s') : Inv2 s' := by
  obtain ⟨g1, g2, g3, g4, g5, g6, g7, g8, g9, g10, g11, g12, g13, g14, g15⟩ := g
  obtain ⟨h1, h2, h3, h4, h5, h6, h7, h8, h9, h10, h13, h12, h11⟩ := h
  have takenEnq : ∀ x, (s.att x).taken = true → (s.att x).enq = true := by
    intro x hx; cases he : (s.att x).enq with
    | true => rfl
    | false => have := (g11 x he).2.2.1; rw [hx] at this; cases this
  have takenNoExit : ∀ x, (s.att x).taken = true → (s.att x).exitErr = false := by
    intro x hx; cases he : (s.att x).exitErr with
    | false => rfl
    | true => have := h4 x he; rw [hx] at this; cases this
  simp only [step?] at hs
  repeat' split at hs
  all_goals first | (cases hs; done) | skip
  all_goals cases hs
  all_goals constructor
  all_goals (try simp only [Bool.or_eq_true, Bool.and_eq_true, Bool.not_eq_true', bne_iff_ne, beq_iff_eq, ne_eq,
    not_or, not_and, Bool.not_eq_true, decide_eq_true_eq, List.isEmpty_iff, Option.isSome_iff_ne_none] at *)
  all_goals (try simp only [put_att, erase_att, put_pc, erase_pc, put_misc, erase_misc, getInflight_setAtt,
    setAtt_inflight, setAtt_live, setAtt_epoch, setAtt_err, setAtt_redial, setAtt_pc, setAtt_exiting, setAtt_fep,
    setAtt_fes, setAtt_fed, setAtt_execs, setAtt_decided, put_decided, erase_decided] at *)
  all_goals (try simp only [St.getInflight] at *)
  all_goals (try grind [St.setAtt, lk_put_self, lk_put_ne, lk_erase_self, lk_erase_ne, put_nonempty,
    lk_nil, erase_nil, nodup_fst_unique, nodup_filter, mem_of_lookup, all_of_mem, liveIds])
  · intro b hb1 hb2 hb3 hb4
    rcases h8 b hb1 hb2 hb3 hb4 with o | o | o | o
    · rename_i hpc _; rw [hpc] at o; cases o
    · exfalso
      rename_i hall
      have hm := mem_of_lookup _ _ _ o
      have := all_of_mem _ _ hall _ hm
      simp [hb3, hb4] at this
    · exact Or.inr (Or.inr (Or.inl o))
    · exact Or.inr (Or.inr (Or.inr o))

private theorem step2_readerErr (s s' : St)  (g : Inv1 s) (h : Inv2 s) (hs : step? s (.readerErr) = some s') : Inv2 s' := by
  obtain ⟨g1, g2, g3, g4, g5, g6, g7, g8, g9, g10, g11, g12, g13, g14, g15⟩ := g
  obtain ⟨h1, h2, h3, h4, h5, h6, h7, h8, h9, h10, h13, h12, h11⟩ := h
  have takenEnq : ∀ x, (s.att x).taken = true → (s.att x).enq = true := by
    intro x hx; cases he : (s.att x).enq with
    | true => rfl
    | false => have := (g11 x he).2.2.1; rw [hx] at this; cases this
  have takenNoExit : ∀ x, (s.att x).taken = true → (s.att x).exitErr = false := by
    intro x hx; cases he : (s.att x).exitErr with
    | false => rfl
    | true => have := h4 x he; rw [hx] at this; cases this
  simp only [step?] at hs
  repeat' split at hs
  all_goals first | (cases hs; done) | skip
  all_goals cases hs
  all_goals constructor
  all_goals (try simp only [Bool.or_eq_true, Bool.and_eq_true, Bool.not_eq_true', bne_iff_ne, beq_iff_eq, ne_eq,
    not_or, not_and, Bool.not_eq_true, decide_eq_true_eq, List.isEmpty_iff, Option.isSome_iff_ne_none] at *)
  all_goals (try simp only [put_att, erase_att, put_pc, erase_pc, put_misc, erase_misc, getInflight_setAtt,
    setAtt_inflight, setAtt_live, setAtt_epoch, setAtt_err, setAtt_redial, setAtt_pc, setAtt_exiting, setAtt_fep,
    setAtt_fes, setAtt_fed, setAtt_execs, setAtt_decided, put_decided, erase_decided] at *)
  all_goals (try simp only [St.getInflight] at *)
  all_goals (try grind [St.setAtt, lk_put_self, lk_put_ne, lk_erase_self, lk_erase_ne, put_nonempty,
    lk_nil, erase_nil, nodup_fst_unique, nodup_filter, mem_of_lookup, all_of_mem, liveIds])

private theorem step2_readError (s s' : St)  (g : Inv1 s) (h : Inv2 s) (hs : step? s (.readError) = some s') : Inv2 s' := by
  obtain ⟨g1, g2, g3, g4, g5, g6, g7, g8, g9, g10, g11, g12, g13, g14, g15⟩ := g
  obtain ⟨h1, h2, h3, h4, h5, h6, h7, h8, h9, h10, h13, h12, h11⟩ := h
  have takenEnq : ∀ x, (s.att x).taken = true → (s.att x).enq = true := by
    intro x hx; cases he : (s.att x).enq with
    | true => rfl
    | false => have := (g11 x he).2.2.1; rw [hx] at this; cases this
  have takenNoExit : ∀ x, (s.att x).taken = true → (s.att x).exitErr = false := by
    intro x hx; cases he : (s.att x).exitErr with
    | false => rfl
    | true => have := h4 x he; rw [hx] at this; cases this
  simp only [step?] at hs
  repeat' split at hs
  all_goals first | (cases hs; done) | skip
  all_goals cases hs
  all_goals constructor
  all_goals (try simp only [Bool.or_eq_true, Bool.and_eq_true, Bool.not_eq_true', bne_iff_ne, beq_iff_eq, ne_eq,
    not_or, not_and, Bool.not_eq_true, decide_eq_true_eq, List.isEmpty_iff, Option.isSome_iff_ne_none] at *)
  all_goals (try simp only [put_att, erase_att, put_pc, erase_pc, put_misc, erase_misc, getInflight_setAtt,
    setAtt_inflight, setAtt_live, setAtt_epoch, setAtt_err, setAtt_redial, setAtt_pc, setAtt_exiting, setAtt_fep,
    setAtt_fes, setAtt_fed, setAtt_execs, setAtt_decided, put_decided, erase_decided] at *)
  all_goals (try simp only [St.getInflight] at *)
  all_goals (try grind [St.setAtt, lk_put_self, lk_put_ne, lk_erase_self, lk_erase_ne, put_nonempty,
    lk_nil, erase_nil, nodup_fst_unique, nodup_filter, mem_of_lookup, all_of_mem, liveIds])

private theorem step2_reconnBegin (s s' : St)  (g : Inv1 s) (h : Inv2 s) (hs : step? s (.reconnBegin) = some s') : Inv2 s' := by
  obtain ⟨g1, g2, g3, g4, g5, g6, g7, g8, g9, g10, g11, g12, g13, g14, g15⟩ := g
  obtain ⟨h1, h2, h3, h4, h5, h6, h7, h8, h9, h10, h13, h12, h11⟩ := h
  have takenEnq : ∀ x, (s.att x).taken = true → (s.att x).enq = true := by
    intro x hx; cases he : (s.att x).enq with
    | true => rfl
    | false => have := (g11 x he).2.2.1; rw [hx] at this; cases this
  have takenNoExit : ∀ x, (s.att x).taken = true → (s.att x).exitErr = false := by
    intro x hx; cases he : (s.att x).exitErr with
    | false => rfl
    | true => have := h4 x he; rw [hx] at this; cases this
  simp only [step?] at hs
  repeat' split at hs
  all_goals first | (cases hs; done) | skip
  all_goals cases hs
  all_goals constructor
  all_goals (try simp only [Bool.or_eq_true, Bool.and_eq_true, Bool.not_eq_true', bne_iff_ne, beq_iff_eq, ne_eq,
    not_or, not_and, Bool.not_eq_true, decide_eq_true_eq, List.isEmpty_iff, Option.isSome_iff_ne_none] at *)
  all_goals (try simp only [put_att, erase_att, put_pc, erase_pc, put_misc, erase_misc, getInflight_setAtt,
    setAtt_inflight, setAtt_live, setAtt_epoch, setAtt_err, setAtt_redial, setAtt_pc, setAtt_exiting, setAtt_fep,
    setAtt_fes, setAtt_fed, setAtt_execs, setAtt_decided, put_decided, erase_decided] at *)
  all_goals (try simp only [St.getInflight] at *)
  all_goals (try grind [St.setAtt, lk_put_self, lk_put_ne, lk_erase_self, lk_erase_ne, put_nonempty,
    lk_nil, erase_nil, nodup_fst_unique, nodup_filter, mem_of_lookup, all_of_mem, liveIds])

private theorem step2_reconnSpawn (s s' : St)  (g : Inv1 s) (h : Inv2 s) (hs : step? s (.reconnSpawn) = some s') : Inv2 s' := by
  obtain ⟨g1, g2, g3, g4, g5, g6, g7, g8, g9, g10, g11, g12, g13, g14, g15⟩ := g
  obtain ⟨h1, h2, h3, h4, h5, h6, h7, h8, h9, h10, h13, h12, h11⟩ := h
  have takenEnq : ∀ x, (s.att x).taken = true → (s.att x).enq = true := by
    intro x hx; cases he : (s.att x).enq with
    | true => rfl
    | false => have := (g11 x he).2.2.1; rw [hx] at this; cases this
  have takenNoExit : ∀ x, (s.att x).taken = true → (s.att x).exitErr = false := by
    intro x hx; cases he : (s.att x).exitErr with
    | false => rfl
    | true => have := h4 x he; rw [hx] at this; cases this
  simp only [step?] at hs
  repeat' split at hs
  all_goals first | (cases hs; done) | skip
  all_goals cases hs
  all_goals constructor
  all_goals (try simp only [Bool.or_eq_true, Bool.and_eq_true, Bool.not_eq_true', bne_iff_ne, beq_iff_eq, ne_eq,
    not_or, not_and, Bool.not_eq_true, decide_eq_true_eq, List.isEmpty_iff, Option.isSome_iff_ne_none] at *)
  all_goals (try simp only [put_att, erase_att, put_pc, erase_pc, put_misc, erase_misc, getInflight_setAtt,
    setAtt_inflight, setAtt_live, setAtt_epoch, setAtt_err, setAtt_redial, setAtt_pc, setAtt_exiting, setAtt_fep,
    setAtt_fes, setAtt_fed, setAtt_execs, setAtt_decided, put_decided, erase_decided] at *)
  all_goals (try simp only [St.getInflight] at *)
  all_goals (try grind [St.setAtt, lk_put_self, lk_put_ne, lk_erase_self, lk_erase_ne, put_nonempty,
    lk_nil, erase_nil, nodup_fst_unique, nodup_filter, mem_of_lookup, all_of_mem, liveIds])

private theorem step2_swap (s s' : St)  (g : Inv1 s) (h : Inv2 s) (hs : step? s (.swap) = some s') : Inv2 s' := by
  obtain ⟨g1, g2, g3, g4, g5, g6, g7, g8, g9, g10, g11, g12, g13, g14, g15⟩ := g
  obtain ⟨h1, h2, h3, h4, h5, h6, h7, h8, h9, h10, h13, h12, h11⟩ := h
  have takenEnq : ∀ x, (s.att x).taken = true → (s.att x).enq = true := by
    intro x hx; cases he : (s.att x).enq with
    | true => rfl
    | false => have := (g11 x he).2.2.1; rw [hx] at this; cases this
  have takenNoExit : ∀ x, (s.att x).taken = true → (s.att x).exitErr = false := by
    intro x hx; cases he : (s.att x).exitErr with
    | false => rfl
    | true => have := h4 x he; rw [hx] at this; cases this
  simp only [step?] at hs
  repeat' split at hs
  all_goals first | (cases hs; done) | skip
  all_goals cases hs
  all_goals constructor
  all_goals (try simp only [Bool.or_eq_true, Bool.and_eq_true, Bool.not_eq_true', bne_iff_ne, beq_iff_eq, ne_eq,
    not_or, not_and, Bool.not_eq_true, decide_eq_true_eq, List.isEmpty_iff, Option.isSome_iff_ne_none] at *)
  all_goals (try simp only [put_att, erase_att, put_pc, erase_pc, put_misc, erase_misc, getInflight_setAtt,
    setAtt_inflight, setAtt_live, setAtt_epoch, setAtt_err, setAtt_redial, setAtt_pc, setAtt_exiting, setAtt_fep,
    setAtt_fes, setAtt_fed, setAtt_execs, setAtt_decided, put_decided, erase_decided] at *)
  all_goals (try simp only [St.getInflight] at *)
  all_goals (try grind [St.setAtt, lk_put_self, lk_put_ne, lk_erase_self, lk_erase_ne, put_nonempty,
    lk_nil, erase_nil, nodup_fst_unique, nodup_filter, mem_of_lookup, all_of_mem, liveIds])

private theorem step2_abort (s s' : St)  (g : Inv1 s) (h : Inv2 s) (hs : step? s (.abort) = some s') : Inv2 s' := by
  obtain ⟨g1, g2, g3, g4, g5, g6, g7, g8, g9, g10, g11, g12, g13, g14, g15⟩ := g
  obtain ⟨h1, h2, h3, h4, h5, h6, h7, h8, h9, h10, h13, h12, h11⟩ := h
  have takenEnq : ∀ x, (s.att x).taken = true → (s.att x).enq = true := by
    intro x hx; cases he : (s.att x).enq with
    | true => rfl
    | false => have := (g11 x he).2.2.1; rw [hx] at this; cases this
  have takenNoExit : ∀ x, (s.att x).taken = true → (s.att x).exitErr = false := by
    intro x hx; cases he : (s.att x).exitErr with
    | false => rfl
    | true => have := h4 x he; rw [hx] at this; cases this
  simp only [step?] at hs
  repeat' split at hs
  all_goals first | (cases hs; done) | skip
  all_goals cases hs
  all_goals constructor
  all_goals (try simp only [Bool.or_eq_true, Bool.and_eq_true, Bool.not_eq_true', bne_iff_ne, beq_iff_eq, ne_eq,
    not_or, not_and, Bool.not_eq_true, decide_eq_true_eq, List.isEmpty_iff, Option.isSome_iff_ne_none] at *)
  all_goals (try simp only [put_att, erase_att, put_pc, erase_pc, put_misc, erase_misc, getInflight_setAtt,
    setAtt_inflight, setAtt_live, setAtt_epoch, setAtt_err, setAtt_redial, setAtt_pc, setAtt_exiting, setAtt_fep,
    setAtt_fes, setAtt_fed, setAtt_execs, setAtt_decided, put_decided, erase_decided] at *)
  all_goals (try simp only [St.getInflight] at *)
  all_goals (try grind [St.setAtt, lk_put_self, lk_put_ne, lk_erase_self, lk_erase_ne, put_nonempty,
    lk_nil, erase_nil, nodup_fst_unique, nodup_filter, mem_of_lookup, all_of_mem, liveIds])

private theorem step2_exitBegin (s s' : St)  (g : Inv1 s) (h : Inv2 s) (hs : step? s (.exitBegin) = some s') : Inv2 s' := by
  obtain ⟨g1, g2, g3, g4, g5, g6, g7, g8, g9, g10, g11, g12, g13, g14, g15⟩ := g
  obtain ⟨h1, h2, h3, h4, h5, h6, h7, h8, h9, h10, h13, h12, h11⟩ := h
  have takenEnq : ∀ x, (s.att x).taken = true → (s.att x).enq = true := by
    intro x hx; cases he : (s.att x).enq with
    | true => rfl
    | false => have := (g11 x he).2.2.1; rw [hx] at this; cases this
  have takenNoExit : ∀ x, (s.att x).taken = true → (s.att x).exitErr = false := by
    intro x hx; cases he : (s.att x).exitErr with
    | false => rfl
    | true => have := h4 x he; rw [hx] at this; cases this
  simp only [step?] at hs
  repeat' split at hs
  all_goals first | (cases hs; done) | skip
  all_goals cases hs
  all_goals constructor
  all_goals (try simp only [Bool.or_eq_true, Bool.and_eq_true, Bool.not_eq_true', bne_iff_ne, beq_iff_eq, ne_eq,
    not_or, not_and, Bool.not_eq_true, decide_eq_true_eq, List.isEmpty_iff, Option.isSome_iff_ne_none] at *)
  all_goals (try simp only [put_att, erase_att, put_pc, erase_pc, put_misc, erase_misc, getInflight_setAtt,
    setAtt_inflight, setAtt_live, setAtt_epoch, setAtt_err, setAtt_redial, setAtt_pc, setAtt_exiting, setAtt_fep,
    setAtt_fes, setAtt_fed, setAtt_execs, setAtt_decided, put_decided, erase_decided] at *)
  all_goals (try simp only [St.getInflight] at *)
  all_goals (try grind [St.setAtt, lk_put_self, lk_put_ne, lk_erase_self, lk_erase_ne, put_nonempty,
    lk_nil, erase_nil, nodup_fst_unique, nodup_filter, mem_of_lookup, all_of_mem, liveIds])

private theorem step2_exited (s s' : St)  (g : Inv1 s) (h : Inv2 s) (hs : step? s (.exited) = some s') : Inv2 s' := by
  obtain ⟨g1, g2, g3, g4, g5, g6, g7, g8, g9, g10, g11, g12, g13, g14, g15⟩ := g
  obtain ⟨h1, h2, h3, h4, h5, h6, h7, h8, h9, h10, h13, h12, h11⟩ := h
  have takenEnq : ∀ x, (s.att x).taken = true → (s.att x).enq = true := by
    intro x hx; cases he : (s.att x).enq with
    | true => rfl
    | false => have := (g11 x he).2.2.1; rw [hx] at this; cases this
  have takenNoExit : ∀ x, (s.att x).taken = true → (s.att x).exitErr = false := by
    intro x hx; cases he : (s.att x).exitErr with
    | false => rfl
    | true => have := h4 x he; rw [hx] at this; cases this
  simp only [step?] at hs
  repeat' split at hs
  all_goals first | (cases hs; done) | skip
  all_goals cases hs
  all_goals constructor
  all_goals (try simp only [Bool.or_eq_true, Bool.and_eq_true, Bool.not_eq_true', bne_iff_ne, beq_iff_eq, ne_eq,
    not_or, not_and, Bool.not_eq_true, decide_eq_true_eq, List.isEmpty_iff, Option.isSome_iff_ne_none] at *)
  all_goals (try simp only [put_att, erase_att, put_pc, erase_pc, put_misc, erase_misc, getInflight_setAtt,
    setAtt_inflight, setAtt_live, setAtt_epoch, setAtt_err, setAtt_redial, setAtt_pc, setAtt_exiting, setAtt_fep,
    setAtt_fes, setAtt_fed, setAtt_execs, setAtt_decided, put_decided, erase_decided] at *)
  all_goals (try simp only [St.getInflight] at *)
  all_goals (try grind [St.setAtt, lk_put_self, lk_put_ne, lk_erase_self, lk_erase_ne, put_nonempty,
    lk_nil, erase_nil, nodup_fst_unique, nodup_filter, mem_of_lookup, all_of_mem, liveIds])

private theorem step2_peerExec (s s' : St) (a : Nat) (g : Inv1 s) (h : Inv2 s) (hs : step? s (.peerExec a) = some s') : Inv2 s' := by
  obtain ⟨g1, g2, g3, g4, g5, g6, g7, g8, g9, g10, g11, g12, g13, g14, g15⟩ := g
  obtain ⟨h1, h2, h3, h4, h5, h6, h7, h8, h9, h10, h13, h12, h11⟩ := h
  have takenEnq : ∀ x, (s.att x).taken = true → (s.att x).enq = true := by
    intro x hx; cases he : (s.att x).enq with
    | true => rfl
    | false => have := (g11 x he).2.2.1; rw [hx] at this; cases this
  have takenNoExit : ∀ x, (s.att x).taken = true → (s.att x).exitErr = false := by
    intro x hx; cases he : (s.att x).exitErr with
    | false => rfl
    | true => have := h4 x he; rw [hx] at this; cases this
  simp only [step?] at hs
  repeat' split at hs
  all_goals first | (cases hs; done) | skip
  all_goals cases hs
  all_goals constructor
  all_goals (try simp only [Bool.or_eq_true, Bool.and_eq_true, Bool.not_eq_true', bne_iff_ne, beq_iff_eq, ne_eq,
    not_or, not_and, Bool.not_eq_true, decide_eq_true_eq, List.isEmpty_iff, Option.isSome_iff_ne_none] at *)
  all_goals (try simp only [put_att, erase_att, put_pc, erase_pc, put_misc, erase_misc, getInflight_setAtt,
    setAtt_inflight, setAtt_live, setAtt_epoch, setAtt_err, setAtt_redial, setAtt_pc, setAtt_exiting, setAtt_fep,
    setAtt_fes, setAtt_fed, setAtt_execs, setAtt_decided, put_decided, erase_decided] at *)
  all_goals (try simp only [St.getInflight] at *)
  all_goals (try grind [St.setAtt, lk_put_self, lk_put_ne, lk_erase_self, lk_erase_ne, put_nonempty,
    lk_nil, erase_nil, nodup_fst_unique, nodup_filter, mem_of_lookup, all_of_mem, liveIds])

/-- Every event preserves `Inv2` (given `Inv1`). -/
theorem step_inv2 (s s' : St) (e : Ev) (g : Inv1 s) (h : Inv2 s) (hs : step? s e = some s') : Inv2 s' := by
  cases e with
  | enq a id => exact step2_enq s s' a id g h hs
  | exitErr a => exact step2_exitErr s s' a g h hs
  | recv a e => exact step2_recv s s' a e g h hs
  | take a => exact step2_take s s' a g h hs
  | errCheck a b => exact step2_errCheck s s' a b g h hs
  | failfast a => exact step2_failfast s s' a g h hs
  | register a => exact step2_register s s' a g h hs
  | wrote a => exact step2_wrote s s' a g h hs
  | notifReply a b => exact step2_notifReply s s' a b g h hs
  | lookup id f => exact step2_lookup s s' id f g h hs
  | deliver id a => exact step2_deliver s s' id a g h hs
  | deliverDone  => exact step2_deliverDone s s'  g h hs
  | delete id => exact step2_delete s s' id g h hs
  | cifSend id a ok => exact step2_cifSend s s' id a ok g h hs
  | cifClear  => exact step2_cifClear s s'  g h hs
  | readerErr  => exact step2_readerErr s s'  g h hs
  | readError  => exact step2_readError s s'  g h hs
  | reconnBegin  => exact step2_reconnBegin s s'  g h hs
  | reconnSpawn  => exact step2_reconnSpawn s s'  g h hs
  | swap  => exact step2_swap s s'  g h hs
  | abort  => exact step2_abort s s'  g h hs
  | exitBegin  => exact step2_exitBegin s s'  g h hs
  | exited  => exact step2_exited s s'  g h hs
  | peerExec a => exact step2_peerExec s s' a g h hs

/-- Both invariants hold in every reachable state. -/
theorem run_inv (es : List Ev) (s s' : St) (g : Inv1 s) (h : Inv2 s) (hr : run? s es = some s') : Inv1 s' ∧ Inv2 s' := by
  induction es generalizing s with
  | nil => simp [run?] at hr; subst hr; exact ⟨g, h⟩
  | cons e es ih =>
    simp only [run?] at hr
    cases hs : step? s e with
    | none => simp [hs] at hr
    | some s1 =>
      simp only [hs, Option.bind_some] at hr
      exact ih s1 (step_inv1 s s1 e g hs) (step_inv2 s s1 e g h hs) hr

theorem reach_inv (es : List Ev) (s : St) (hr : run? {} es = some s) : Inv1 s ∧ Inv2 s :=
  run_inv es {} s inv1_init inv2_init hr

end Jrpc.Corr

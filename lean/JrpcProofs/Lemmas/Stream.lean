import Jrpc.Stream
/-
  The invariant of the subscription pipeline and its preservation by every event.
-/
namespace Jrpc.Stream
set_option linter.unusedSimpArgs false

/-- The pipeline invariant. -/
structure Inv (s : St) : Prop where
  /-- FIFO with a cut: everything the forwarder took is, in order, what the caller received followed by
      what is in transit (buffered, discarded, orphaned, inside the sink, or still on the wire). -/
  eq      : s.sent = s.recv ++ s.inTransit
  nocrash : s.crashed = false
  dropCtx : s.dropped ≠ [] → s.ctxCancelled = true
  orph    : s.orphaned ≠ [] → s.pending = none ∧ s.sinkOpen = false ∧ s.wireReg = false
  pend    : s.pending.isSome = true → s.sinkOpen = true ∧ s.inClosed = false ∧ s.orphaned = []
  closedSink : s.inClosed = true → s.sinkOpen = false ∧ s.wireReg = false
  regPending : s.wireReg = true → s.sinkOpen = false ∧ s.inClosed = false ∧ s.orphaned = [] ∧
               s.pending = none ∧ s.dropped = [] ∧ s.incoming = [] ∧ s.list = [] ∧ s.recv = []
  seen    : s.inSeenClosed = true → s.inClosed = true ∧ s.incoming = []
  hclose  : s.hCloseSeen = true → s.wireVals = [] ∧ s.wireClose = false ∧ s.inClosed = true ∧
            s.orphaned = [] ∧ s.fwdClosed = true
  wclose  : s.wireClose = true → s.fwdClosed = true
  closedWhy : s.closed = true → s.ctxCancelled = true ∨ (s.inSeenClosed = true ∧ s.list = [])
  unreg   : s.registered = false → s.wireReg = false ∧ s.wireVals = [] ∧ s.wireClose = false ∧ s.sent = [] ∧
            s.sinkOpen = false ∧ s.inClosed = false ∧ s.fwdClosed = false

theorem inv_init : Inv {} := by
  constructor <;> simp [St.inTransit]

local macro "fin" : tactic => `(tactic| (constructor <;> simp_all [St.inTransit]))

set_option maxHeartbeats 1000000 in
/-- Every event preserves the invariant. -/
theorem step_inv (s s' : St) (e : Ev) (h : Inv s) (hs : step? s e = some s') : Inv s' := by
  obtain ⟨e1, e2, e3, e4, e5, e6, e7, e9, e10, e11, e13, e14⟩ := h
  cases e with
  | reg =>
    simp only [step?] at hs
    split at hs
    · cases hs
    · rename_i hr
      cases hs
      obtain ⟨h1, h2, h3, h4, h5, h6, h7⟩ := e14 (by simpa using hr)
      fin
  | fwdVal v =>
    simp only [step?] at hs
    split at hs
    · cases hs; fin
    · cases hs
  | fwdClose =>
    simp only [step?] at hs
    split at hs
    · cases hs; fin
    · cases hs
  | sinkReg =>
    simp only [step?] at hs
    split at hs
    · cases hs; fin
    · cases hs
  | chval found =>
    simp only [step?] at hs
    repeat' split at hs
    all_goals first | (cases hs; done) | (cases hs; fin)
  | pushed =>
    simp only [step?] at hs
    repeat' split at hs
    all_goals first | (cases hs; done) | (cases hs; fin)
  | dropped =>
    simp only [step?] at hs
    repeat' split at hs
    all_goals first | (cases hs; done) | (cases hs; fin)
  | chclose found =>
    simp only [step?] at hs
    repeat' split at hs
    all_goals first | (cases hs; done) | (cases hs; fin)
  | ccClose =>
    simp only [step?] at hs
    repeat' split at hs
    all_goals first | (cases hs; done) | (cases hs; fin)
  | bufIn =>
    simp only [step?] at hs
    repeat' split at hs
    all_goals first | (cases hs; done) | (cases hs; fin)
  | bufOut =>
    simp only [step?] at hs
    repeat' split at hs
    all_goals first | (cases hs; done) | (cases hs; fin)
  | bufInClosed =>
    simp only [step?] at hs
    repeat' split at hs
    all_goals first | (cases hs; done) | (cases hs; fin)
  | bufClose c =>
    simp only [step?] at hs
    repeat' split at hs
    all_goals first | (cases hs; done) | (cases hs; fin)
  | ctxCancel =>
    simp only [step?] at hs
    cases hs; fin

theorem run_inv (es : List Ev) (s s' : St) (h : Inv s) (hr : run? s es = some s') : Inv s' := by
  induction es generalizing s with
  | nil => simp [run?] at hr; subst hr; exact h
  | cons e es ih =>
    simp only [run?] at hr
    cases hs : step? s e with
    | none => simp [hs] at hr
    | some s1 => simp only [hs, Option.bind_some] at hr; exact ih s1 (step_inv s s1 e h hs) hr

end Jrpc.Stream

import JrpcProofs.Lemmas.Corr
/-
  A further small invariant of `Jrpc.Corr` (kept out of Lemmas/Corr.lean): only an attempt that
  reached its enqueue select can have returned the "exiting" error.
-/
namespace Jrpc.Corr

def ExitErrEnq (s : St) : Prop := ∀ a, (s.att a).exitErr = true → (s.att a).enq = true

theorem exitErrEnq_init : ExitErrEnq {} := by intro a h; simp at h

theorem att_setAtt (s : St) (a b : Nat) (f : Att → Att) :
    (s.setAtt a f).att b = if b = a then f (s.att a) else s.att b := by
  simp [St.setAtt]

theorem exitErrEnq_step (s s' : St) (e : Ev) (h : ExitErrEnq s) (hs : step? s e = some s') : ExitErrEnq s' := by
  intro b
  have hb := h b
  cases e <;> simp only [step?] at hs <;> (repeat' split at hs) <;>
    (first | (cases hs; done) | skip) <;> cases hs <;>
    (try simp only [St.putInflight, St.eraseInflight, att_setAtt]) <;>
    (first | exact hb | (split <;> (first | exact hb | (rename_i hba; subst hba; simp_all))))

theorem exitErrEnq_run (es : List Ev) : ∀ (s s' : St), ExitErrEnq s → run? s es = some s' → ExitErrEnq s' := by
  induction es with
  | nil => intro s s' h hr; simp [run?] at hr; subst hr; exact h
  | cons e es ih =>
    intro s s' h hr
    simp only [run?] at hr
    cases hs : step? s e with
    | none => simp [hs] at hr
    | some s1 =>
      simp only [hs, Option.bind_some] at hr
      exact ih s1 s' (exitErrEnq_step s s1 e h hs) hr

end Jrpc.Corr

import Jrpc.Framing
/-
  Helper lemmas about the batch writer fold of `Jrpc.Framing`.
-/
namespace Jrpc

/-- What one batch element contributes: its response object (if any) and the handler run (if any). -/
def elemOut (h : Handler) (r : RawReq) : Option Resp × Option String :=
  match normalizeID r.id with
  | none => (some ⟨.nil, .error codeParseError⟩, none)
  | some id =>
    let o := h.handle false ⟨id, r.method, r.params⟩
    (o.resp, o.invoked)

/-- Separator discipline, as a function of the response objects alone. -/
def sepToks : Bool → List Resp → List Tok
  | _, [] => []
  | st, r :: rs => (if st then Tok.comma else Tok.lbrack) :: .obj r :: sepToks true rs

theorem batchElem_eq (h : Handler) (b : BatchW) (r : RawReq) :
    batchElem h b r = b.emit (elemOut h r).1 (elemOut h r).2 := by
  unfold batchElem elemOut
  cases normalizeID r.id <;> rfl

theorem emit_toks (b : BatchW) (r : Option Resp) (i : Option String) :
    (b.emit r i).toks = b.toks ++ sepToks b.started r.toList := by
  cases r <;> simp [BatchW.emit, sepToks]

theorem emit_started (b : BatchW) (r : Option Resp) (i : Option String) :
    (b.emit r i).started = (b.started || r.isSome) := by
  cases r <;> simp [BatchW.emit]

theorem emit_invoked (b : BatchW) (r : Option Resp) (i : Option String) :
    (b.emit r i).invoked = b.invoked ++ i.toList := by
  cases r <;> cases i <;> simp [BatchW.emit]

theorem sepToks_append (st : Bool) (xs ys : List Resp) :
    sepToks st (xs ++ ys) = sepToks st xs ++ sepToks (st || !xs.isEmpty) ys := by
  induction xs generalizing st with
  | nil => simp [sepToks]
  | cons x xs ih => simp [sepToks, ih]

theorem fold_batch (h : Handler) (rs : List RawReq) (b : BatchW) :
    (rs.foldl (batchElem h) b).toks
        = b.toks ++ sepToks b.started (rs.filterMap (fun r => (elemOut h r).1))
    ∧ (rs.foldl (batchElem h) b).started
        = (b.started || !(rs.filterMap (fun r => (elemOut h r).1)).isEmpty)
    ∧ (rs.foldl (batchElem h) b).invoked
        = b.invoked ++ rs.filterMap (fun r => (elemOut h r).2) := by
  induction rs generalizing b with
  | nil => simp [sepToks]
  | cons r rs ih =>
    simp only [List.foldl_cons]
    have := ih (batchElem h b r)
    rw [batchElem_eq] at this ⊢
    obtain ⟨h1, h2, h3⟩ := this
    rw [h1, h2, h3, emit_toks, emit_started, emit_invoked]
    cases hr : (elemOut h r).1 <;> cases hi : (elemOut h r).2 <;>
      simp [hr, hi, sepToks]

theorem elemsOK_sep (r : Resp) (rs : List Resp) :
    elemsOK (.obj r :: (sepToks true rs ++ [.rbrack])) = true := by
  induction rs generalizing r with
  | nil => simp [sepToks, elemsOK]
  | cons x xs ih => simp [sepToks, elemsOK, ih]

theorem oneValue_sep (r : Resp) (rs : List Resp) :
    oneValue (sepToks false (r :: rs) ++ [.rbrack]) = true := by
  simp [sepToks, oneValue, elemsOK_sep]

theorem objsOf_sep (st : Bool) (rs : List Resp) : objsOf (sepToks st rs) = rs := by
  induction rs generalizing st with
  | nil => rfl
  | cons r rs ih => cases st <;> simp [sepToks, objsOf, ih]

theorem objsOf_append (xs ys : List Tok) : objsOf (xs ++ ys) = objsOf xs ++ objsOf ys := by
  induction xs with
  | nil => rfl
  | cons x xs ih => cases x <;> simp [objsOf, ih]

end Jrpc

import Jrpc.BatchWriter
import Jrpc.Framing
/-
  Helper lemmas about the batch writer fold of `Jrpc.Framing`.
-/
namespace Jrpc

/-- What one batch element contributes: its response object (if any) and the handler run (if any). -/
def elemOut (h : Handler) (r : RawReq) : Option Resp × Option String :=
  match normalizeID r.id with
  | none => (some ⟨.nil, .error codeParseError⟩, none)
  | some id =>
    let o := h.handle false ⟨id, r.method, r.params⟩
    (httpWire id o, o.invoked)

/-- Separator discipline, as a function of the response objects alone. -/
def sepToks : Bool → List Resp → List Tok
  | _, [] => []
  | st, r :: rs => (if st then Tok.comma else Tok.lbrack) :: .obj r :: sepToks true rs

theorem batchElem_eq (h : Handler) (b : BatchW) (r : RawReq) :
    batchElem h b r = b.emit (elemOut h r).1 (elemOut h r).2 := by
  unfold batchElem elemOut
  cases normalizeID r.id <;> rfl

theorem emit_toks (b : BatchW) (r : Option Resp) (i : Option String) :
    (b.emit r i).toks = b.toks ++ sepToks b.started r.toList := by
  cases r <;> simp [BatchW.emit, sepToks]

theorem emit_started (b : BatchW) (r : Option Resp) (i : Option String) :
    (b.emit r i).started = (b.started || r.isSome) := by
  cases r <;> simp [BatchW.emit]

theorem emit_invoked (b : BatchW) (r : Option Resp) (i : Option String) :
    (b.emit r i).invoked = b.invoked ++ i.toList := by
  cases r <;> cases i <;> simp [BatchW.emit]

theorem sepToks_append (st : Bool) (xs ys : List Resp) :
    sepToks st (xs ++ ys) = sepToks st xs ++ sepToks (st || !xs.isEmpty) ys := by
  induction xs generalizing st with
  | nil => simp [sepToks]
  | cons x xs ih => simp [sepToks, ih]

theorem fold_batch (h : Handler) (rs : List RawReq) (b : BatchW) :
    (rs.foldl (batchElem h) b).toks
        = b.toks ++ sepToks b.started (rs.filterMap (fun r => (elemOut h r).1))
    ∧ (rs.foldl (batchElem h) b).started
        = (b.started || !(rs.filterMap (fun r => (elemOut h r).1)).isEmpty)
    ∧ (rs.foldl (batchElem h) b).invoked
        = b.invoked ++ rs.filterMap (fun r => (elemOut h r).2) := by
  induction rs generalizing b with
  | nil => simp [sepToks]
  | cons r rs ih =>
    simp only [List.foldl_cons]
    have := ih (batchElem h b r)
    rw [batchElem_eq] at this ⊢
    obtain ⟨h1, h2, h3⟩ := this
    rw [h1, h2, h3, emit_toks, emit_started, emit_invoked]
    cases hr : (elemOut h r).1 <;> cases hi : (elemOut h r).2 <;>
      simp [hr, hi, sepToks]

theorem elemsOK_sep (r : Resp) (rs : List Resp) :
    elemsOK (.obj r :: (sepToks true rs ++ [.rbrack])) = true := by
  induction rs generalizing r with
  | nil => simp [sepToks, elemsOK]
  | cons x xs ih => simp [sepToks, elemsOK, ih]

theorem oneValue_sep (r : Resp) (rs : List Resp) :
    oneValue (sepToks false (r :: rs) ++ [.rbrack]) = true := by
  simp [sepToks, oneValue, elemsOK_sep]

theorem objsOf_sep (st : Bool) (rs : List Resp) : objsOf (sepToks st rs) = rs := by
  induction rs generalizing st with
  | nil => rfl
  | cons r rs ih => cases st <;> simp [sepToks, objsOf, ih]

theorem objsOf_append (xs ys : List Tok) : objsOf (xs ++ ys) = objsOf xs ++ objsOf ys := by
  induction xs with
  | nil => rfl
  | cons x xs ih => cases x <;> simp [objsOf, ih]

end Jrpc

/-! ### `batchWriter` at the granularity of `Write` calls -/
namespace Jrpc.BatchWriter

theorem write_started (b : BW) (hs : b.elemStarted = true) (chunks : List String) :
    (chunks.foldl BW.write b).out = b.out ++ body chunks ∧
    (chunks.foldl BW.write b).started = b.started ∧ (chunks.foldl BW.write b).elemStarted = true := by
  induction chunks generalizing b with
  | nil => simp [body, hs]
  | cons c rest ih =>
    simp only [List.foldl]
    by_cases hc : c.isEmpty
    · have : b.write c = b := by simp [BW.write, hc]
      rw [this]
      have := ih b hs
      simpa [body, List.filter, hc] using this
    · have hw : b.write c = { b with out := b.out ++ [.data c] } := by simp [BW.write, hc, hs]
      rw [hw]
      have := ih { b with out := b.out ++ [.data c] } hs
      simp only at this
      refine ⟨?_, this.2.1, this.2.2⟩
      rw [this.1]
      simp [body, List.filter, hc]

/-- An element started with `elemStarted = false`. -/
theorem elem_spec (b : BW) (chunks : List String) :
    let b' := b.elem chunks
    (body chunks = [] → b'.out = b.out ∧ b'.started = b.started) ∧
    (body chunks ≠ [] → b'.out = b.out ++ (if b.started then Piece.comma else Piece.lbrack) :: body chunks ∧
                          b'.started = true) := by
  unfold BW.elem
  generalize hb0 : b.nextElem = b0
  have h0 : b0.elemStarted = false ∧ b0.out = b.out ∧ b0.started = b.started := by
    subst hb0; simp [BW.nextElem]
  clear hb0
  induction chunks generalizing b0 with
  | nil => simp [body, h0.2.1, h0.2.2]
  | cons c rest ih =>
    simp only [List.foldl]
    by_cases hc : c.isEmpty
    · have : b0.write c = b0 := by simp [BW.write, hc]
      rw [this]
      have := ih b0 h0
      simpa [body, List.filter, hc] using this
    · have hst : (b0.write c).started = true := by simp [BW.write, hc, h0.1]
      have hes : (b0.write c).elemStarted = true := by simp [BW.write, hc, h0.1]
      have hout : (b0.write c).out = b0.out ++ [if b0.started then Piece.comma else Piece.lbrack, .data c] := by
        simp [BW.write, hc, h0.1]
      have hs := write_started (b0.write c) hes rest
      have hbody : body (c :: rest) = Piece.data c :: body rest := by simp [body, List.filter, hc]
      constructor
      · intro hbe; rw [hbody] at hbe; simp at hbe
      · intro _
        refine ⟨?_, by rw [hs.2.1, hst]⟩
        rw [hs.1, hout, hbody, h0.2.1, h0.2.2]
        simp

theorem run_from (b : BW) (elems : List (List String)) :
    (elems.foldl BW.elem b).out = b.out ++ specFrom b.started elems ∧
    ((elems.foldl BW.elem b).started = (b.started || !(specFrom b.started elems).isEmpty)) := by
  induction elems generalizing b with
  | nil => simp [specFrom]
  | cons e es ih =>
    simp only [List.foldl]
    have he := elem_spec b e
    simp only at he
    by_cases hbe : body e = []
    · obtain ⟨ho, hst⟩ := he.1 hbe
      have := ih (b.elem e)
      rw [ho, hst] at this
      simpa [specFrom, hbe] using this
    · obtain ⟨ho, hst⟩ := he.2 hbe
      have := ih (b.elem e)
      rw [ho, hst] at this
      constructor
      · rw [this.1]; simp [specFrom, hbe]
      · rw [this.2]; simp [specFrom, hbe]

end Jrpc.BatchWriter

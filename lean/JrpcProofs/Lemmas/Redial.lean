import Jrpc.Redial
/-
  Invariants of `Jrpc.Redial.step?` (helper lemmas; the property theorems are in Props/C05.lean).
-/
namespace Jrpc.Redial

structure RInv (c : Cfg) (s : St) : Prop where
  chained : Chained c.minDelay s.dials
  headLe  : ∀ p, s.dials.head? = some p → p.2 ≤ s.mark
  markNow : s.mark ≤ s.now
  sleepAt : ∀ n since, s.pc = .sleeping n since → s.mark ≤ since
  count   : s.dials.length * c.minDelay ≤ s.mark
  noFact  : c.reconnect = false → (s.pc = .up ∨ s.pc = .exited) ∧ s.dials = []

theorem rinv_init (c : Cfg) : RInv c {} := by
  constructor <;> simp [Chained]

theorem chained_cons (d : Nat) (p : Nat × Nat) (l : List (Nat × Nat)) (h : Chained d l)
    (hp : p.1 + d ≤ p.2) (hh : ∀ q, l.head? = some q → q.2 ≤ p.1) : Chained d (p :: l) := by
  cases l with
  | nil => simpa [Chained] using hp
  | cons q rest => exact ⟨hp, hh q rfl, h⟩

theorem step_rinv (c : Cfg) (hlo : ∀ n, c.minDelay ≤ c.lo n) (s s' : St) (e : Ev) (h : RInv c s)
    (hs : step? c s e = some s') : RInv c s' := by
  unfold step? at hs
  split at hs
  · simp at hs
  · rename_i hnow
    have hnow' : s.now ≤ e.time := Nat.le_of_not_lt hnow
    have hm : s.mark ≤ e.time := Nat.le_trans h.markNow hnow'
    cases e with
    | loss t =>
      have hm : s.mark ≤ t := by simpa [Ev.time] using hm
      simp only [Ev.time] at hs
      split at hs
      · rename_i hc
        injection hs with hs; subst hs
        simp only [Bool.and_eq_true, decide_eq_true_eq] at hc
        refine ⟨h.chained, h.headLe, hm, ?_, h.count, ?_⟩
        · intro n since hp; simp at hp
        · intro hr; simp [hr] at hc
      · simp at hs
    | spawn t =>
      have hm : s.mark ≤ t := by simpa [Ev.time] using hm
      simp only [Ev.time] at hs
      split at hs
      · rename_i hc
        injection hs with hs; subst hs
        refine ⟨h.chained, ?_, Nat.le_refl _, ?_, ?_, ?_⟩
        · intro p hp; exact Nat.le_trans (h.headLe p hp) hm
        · intro n since hp; simp at hp
        · exact Nat.le_trans h.count hm
        · intro hr; have := (h.noFact hr).1; simp [hc] at this
      · simp at hs
    | sleep n t =>
      have hm : s.mark ≤ t := by simpa [Ev.time] using hm
      simp only [Ev.time] at hs
      split at hs
      · split at hs
        · injection hs with hs; subst hs
          rename_i hpc _
          refine ⟨h.chained, h.headLe, hm, ?_, h.count, ?_⟩
          · intro n' since hp; simp at hp; rcases hp with ⟨_, rfl⟩; exact hm
          · intro hr; have := (h.noFact hr).1; simp [hpc] at this
        · simp at hs
      · split at hs
        · injection hs with hs; subst hs
          rename_i hpc _
          refine ⟨h.chained, h.headLe, hm, ?_, h.count, ?_⟩
          · intro n' since hp; simp at hp; rcases hp with ⟨_, rfl⟩; exact hm
          · intro hr; have := (h.noFact hr).1; simp [hpc] at this
        · simp at hs
      · simp at hs
    | dial n t =>
      have hm : s.mark ≤ t := by simpa [Ev.time] using hm
      simp only [Ev.time] at hs
      split at hs
      · rename_i m since hpc
        split at hs
        · rename_i hc
          injection hs with hs; subst hs
          simp only [Bool.and_eq_true, decide_eq_true_eq] at hc
          have hlon := hlo n
          have hsl := h.sleepAt m since hpc
          refine ⟨?_, ?_, Nat.le_refl _, ?_, ?_, ?_⟩
          · exact chained_cons _ _ _ h.chained (by simp; omega) (by intro q hq; exact h.headLe q hq)
          · intro p hp; simp at hp; subst hp; exact Nat.le_refl _
          · intro n' since' hp; simp at hp
          · simp only [List.length_cons]
            have := h.count
            calc (s.dials.length + 1) * c.minDelay = s.dials.length * c.minDelay + c.minDelay := by
                  rw [Nat.add_mul, Nat.one_mul]
              _ ≤ s.mark + c.minDelay := Nat.add_le_add_right this _
              _ ≤ t := by omega
          · intro hr; have := (h.noFact hr).1; simp [hpc] at this
        · simp at hs
      · simp at hs
    | swap t =>
      have hm : s.mark ≤ t := by simpa [Ev.time] using hm
      simp only [Ev.time] at hs
      split at hs
      · injection hs with hs; subst hs
        rename_i hpc
        refine ⟨h.chained, h.headLe, hm, ?_, h.count, ?_⟩
        · intro n since hp; simp at hp
        · intro hr; have := (h.noFact hr).1; simp [hpc] at this
      · simp at hs
    | abort t =>
      have hm : s.mark ≤ t := by simpa [Ev.time] using hm
      simp only [Ev.time] at hs
      split at hs
      · injection hs with hs; subst hs
        rename_i hpc
        refine ⟨h.chained, h.headLe, hm, ?_, h.count, ?_⟩
        · intro n since hp; simp at hp
        · intro hr; have := (h.noFact hr).1; simp [hpc] at this
      · injection hs with hs; subst hs
        rename_i hpc
        refine ⟨h.chained, h.headLe, hm, ?_, h.count, ?_⟩
        · intro n since hp; simp at hp
        · intro hr; have := (h.noFact hr).1; simp [hpc] at this
      · simp at hs
    | exit t =>
      have hm : s.mark ≤ t := by simpa [Ev.time] using hm
      simp only [Ev.time] at hs
      split at hs
      · simp at hs
      · split at hs
        · injection hs with hs; subst hs
          refine ⟨h.chained, h.headLe, hm, ?_, h.count, ?_⟩
          · intro n since hp; simp at hp
          · intro hr; exact ⟨Or.inr rfl, (h.noFact hr).2⟩
        · injection hs with hs; subst hs
          refine ⟨h.chained, h.headLe, hm, ?_, h.count, ?_⟩
          · intro n since hp; simp at hp
          · intro hr; exact ⟨Or.inr rfl, (h.noFact hr).2⟩
        · injection hs with hs; subst hs
          rename_i hpc1 hpc2
          refine ⟨h.chained, h.headLe, hm, ?_, h.count, ?_⟩
          · intro n since hp; exact h.sleepAt n since hp
          · intro hr
            have := (h.noFact hr).1
            rcases this with hu | hx
            · exact absurd hu (hpc1 · )
            · exact ⟨Or.inr hx, (h.noFact hr).2⟩

theorem run_rinv (c : Cfg) (hlo : ∀ n, c.minDelay ≤ c.lo n) (es : List Ev) (s s' : St) (h : RInv c s)
    (hr : run? c s es = some s') : RInv c s' := by
  induction es generalizing s with
  | nil => simp [run?] at hr; subst hr; exact h
  | cons e es ih =>
    simp only [run?] at hr
    cases hst : step? c s e with
    | none => simp [hst] at hr
    | some s1 =>
      simp [hst] at hr
      exact ih s1 (step_rinv c hlo s s1 e h hst) hr

/-- `Backoff.lo` never goes below the configured minimum. -/
theorem backoff_lo_ge_min (b : Backoff) (hle : b.minDelay ≤ b.maxDelay) (n : Nat) : b.minDelay ≤ b.lo n := by
  unfold Backoff.lo
  apply Nat.le_min.mpr
  refine ⟨hle, ?_⟩
  apply (Nat.le_div_iff_mul_le (Nat.pow_pos (by omega))).mpr
  exact Nat.mul_le_mul_left _ (Nat.pow_le_pow_left (by omega) n)

theorem ofBackoff_lo (r : Bool) (b : Backoff) (hle : b.minDelay ≤ b.maxDelay) :
    ∀ n, (Cfg.ofBackoff r b).minDelay ≤ (Cfg.ofBackoff r b).lo n :=
  fun n => backoff_lo_ge_min b hle n

end Jrpc.Redial
